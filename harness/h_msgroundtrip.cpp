// h_msgroundtrip -- C01: Message serialisation round-trips exactly and its size is exact.
// One case = one Message built through the public API by msggen.h (random operation script per field, steered through the
// representation states empty-after-removal / inline / array-of-one / arrays of 2,3,17,300, boundary value pools, nesting <= 4,
// pointer and tag fields), then the oracle of DESIGN.md C01:
//   1 flatten into a heap buffer of exactly FlattenedSize() bytes (ASan red zones at both ends; muscle aborts on under/over-write)
//   2 parse into a fresh object and into a reused object that held another Message
//   3 bit-exact structural comparison (msggen::SameStructure), non-flattenable fields absent after the trip
//   4 re-flatten byte identity, FlattenedSize equality
//   5 CalculateChecksum equality; operator== both ways (NaN rule: same answers against a panel of other Messages)
//   6 FlattenToByteBuffer / UnflattenFromByteBuffer / GetMessageFromPool(bytes) / copy constructor / assignment
//   7 the bytes are walked by an independent reader written from the layout comment in Message::Flatten()
// modes (--opt mode=): roundtrip (default) | product (type class x representation state x field position, enumerated) | regress
// other options: size=0|1|2 (msggen size class)
#include "message/Message.h"
#include "util/ByteBuffer.h"
#include "system/SetupSystem.h"
#include "msggen.h"
#include "vh.h"
using namespace muscle;
using namespace msggen;

static bool caseBad;
static std::string caseDesc;

static void Fail(const std::string & key, const std::string & detail)
{
   if (caseBad) return;   // one violation per case
   caseBad = true;
   vh::viol(key, detail + " | message: " + caseDesc);
}
static void HarnessAbort(const std::string & why) { fprintf(stderr, "HARNESS-ABORT: %s\n", why.c_str()); fflush(stderr); abort(); }

static uint8 * FlattenExact(const Message & m, uint32 n)
{
   uint8 * buf = (uint8 *)malloc(n ? n : 1);   // exactly n bytes: both ends are guarded by ASan red zones / memcheck
   if (buf == NULL) HarnessAbort("malloc");
   m.FlattenToBytes(buf, n);
   return buf;
}
static std::string FirstDiff(const uint8 * a, uint32 na, const uint8 * b, uint32 nb)
{
   uint32 i = 0; while (i < na && i < nb && a[i] == b[i]) i++;
   const uint32 from = i > 8 ? i - 8 : 0;
   return vh::fmt("sizes %u / %u, first difference at offset %u: ", na, nb, i) + vh::hex(a + from, na - from, 24) + " vs " + vh::hex(b + from, nb - from, 24);
}

// a copy of (m) without pointer and tag fields at any level, rebuilt through the public API (the reference for operator==)
static MessageRef Strip(const Message & m)
{
   MessageRef r = GetMessageFromPool(m.what); if (r() == NULL) HarnessAbort("GetMessageFromPool");
   for (MessageFieldNameIterator it = m.GetFieldNameIterator(); it.HasData(); it++) {
      const String & fn = it.GetFieldName(); uint32 t = 0, n = 0; if (m.GetInfo(fn, &t, &n).IsError()) HarnessAbort("Strip: GetInfo");
      if (IsNonFlat(t)) continue;
      if (t == B_MESSAGE_TYPE) { for (uint32 i = 0; i < n; i++) { ConstMessageRef s; if (m.FindMessage(fn, i, s).IsError() || s() == NULL) HarnessAbort("Strip: FindMessage"); if (r()->AddMessage(fn, Strip(*s())).IsError()) HarnessAbort("Strip: AddMessage"); } }
      else if (m.CopyName(fn, *r()).IsError()) HarnessAbort("Strip: CopyName");
   }
   return r;
}

// ---- step 7: independent reader of the documented layout (little-endian):
//   'PM00', what, number of entries, then per entry: name length (incl. NUL), name, type code, data length, data.
//   data: fixed-size types = items back to back (bool 1 byte); Message fields = (length, Message)* without a count;
//   everything else = item count, (length, bytes)* ; strings carry their NUL.
static bool Rd32(const uint8 * & p, const uint8 * end, uint32 & v) { if (end - p < 4) return false; v = (uint32)p[0] | ((uint32)p[1] << 8) | ((uint32)p[2] << 16) | ((uint32)p[3] << 24); p += 4; return true; }
static uint32 WireItemSize(uint32 t) { switch (t) { case B_BOOL_TYPE: case B_INT8_TYPE: return 1; case B_INT16_TYPE: return 2; case B_INT32_TYPE: case B_FLOAT_TYPE: return 4; case B_INT64_TYPE: case B_DOUBLE_TYPE: case B_POINT_TYPE: return 8; case B_RECT_TYPE: return 16; } return 0; }
static bool Layout(const uint8 * & p, const uint8 * end, const Message & m, std::string & why)
{
   uint32 v, what, cnt;
   if (!Rd32(p, end, v) || v != 1347235888u) { why = "protocol version word"; return false; }
   if (!Rd32(p, end, what) || what != m.what) { why = "what code"; return false; }
   if (!Rd32(p, end, cnt)) { why = "entry count truncated"; return false; }
   uint32 want = 0; for (MessageFieldNameIterator it = m.GetFieldNameIterator(); it.HasData(); it++) if (!IsNonFlat(it.GetFieldType())) want++;
   if (cnt != want) { why = vh::fmt("entry count %u, the Message has %u flattenable fields", cnt, want); return false; }
   for (MessageFieldNameIterator it = m.GetFieldNameIterator(); it.HasData(); it++) {
      const String & fn = it.GetFieldName(); uint32 t = 0, n = 0; (void)m.GetInfo(fn, &t, &n);
      if (IsNonFlat(t)) continue;
      const std::string fname = Esc(fn(), 20);
      uint32 nl, tc, dl;
      if (!Rd32(p, end, nl) || nl != fn.Length() + 1 || (uint32)(end - p) < nl || memcmp(p, fn(), nl) != 0) { why = "name of field '" + fname + "'"; return false; }
      p += nl;
      if (!Rd32(p, end, tc) || tc != t) { why = "type code of field '" + fname + "'"; return false; }
      if (!Rd32(p, end, dl) || (uint32)(end - p) < dl) { why = "data length of field '" + fname + "'"; return false; }
      const uint8 * dend = p + dl;
      const uint32 ws = WireItemSize(t);
      if (ws) {
         if (dl != n * ws) { why = vh::fmt("data length %u of %u %s items", dl, n, TypeCodeName(t)); return false; }
         for (uint32 i = 0; i < n; i++) {
            const void * q = NULL; uint32 l = 0; if (!ItemBytes(m, fn, t, i, q, l) || l != ws) { why = "FindData on fixed-size item"; return false; }
            if (t == B_BOOL_TYPE ? (p[0] != ((*(const uint8 *)q) ? 1 : 0)) : (memcmp(p, q, ws) != 0)) { why = vh::fmt("%s item %u of %u in '", TypeCodeName(t), i, n) + fname + "': wire " + vh::hex(p, ws) + " memory " + vh::hex(q, ws); return false; }
            p += ws;
         }
      }
      else if (t == B_MESSAGE_TYPE) {
         for (uint32 i = 0; i < n; i++) {
            ConstMessageRef s; uint32 l; if (m.FindMessage(fn, i, s).IsError() || s() == NULL) { why = "FindMessage"; return false; }
            if (!Rd32(p, dend, l) || (uint32)(dend - p) < l) { why = vh::fmt("length prefix of sub-Message %u of %u in '", i, n) + fname + "'"; return false; }
            if (l != s()->FlattenedSize()) { why = vh::fmt("sub-Message %u length prefix %u, its FlattenedSize() is %u", i, l, s()->FlattenedSize()); return false; }
            const uint8 * q = p; std::string w2; if (!Layout(q, p + l, *s(), w2) || q != p + l) { why = "in '" + fname + vh::fmt("'[%u]: ", i) + (w2.empty() ? "sub-Message length" : w2); return false; }
            p += l;
         }
      }
      else {
         uint32 c2; if (!Rd32(p, dend, c2) || c2 != n) { why = vh::fmt("item count word of %s field '", TypeCodeName(t)) + fname + vh::fmt("' (%u items)", n); return false; }
         for (uint32 i = 0; i < n; i++) {
            const void * q = NULL; uint32 l = 0, wl; if (!ItemBytes(m, fn, t, i, q, l)) { why = "FindData/FindFlat on variable-size item"; return false; }
            if (!Rd32(p, dend, wl) || wl != l || (uint32)(dend - p) < wl || (l && memcmp(p, q, l) != 0)) { why = vh::fmt("%s item %u of %u in '", TypeCodeName(t), i, n) + fname + vh::fmt("' (%u bytes in memory)", l); return false; }
            if (t == B_STRING_TYPE && (l == 0 || p[l - 1] != 0)) { why = "string item without NUL"; return false; }
            p += wl;
         }
      }
      if (p != dend) { why = vh::fmt("%s field '", TypeCodeName(t)) + fname + vh::fmt("': %ld bytes of its data length are unaccounted for", (long)(dend - p)); return false; }
   }
   return true;
}

static bool Same(const Message & a, const Message & b, bool skip, const char * stage)
{
   std::string why, key;
   if (SameStructure(a, b, skip, why, key)) return true;
   Fail(std::string(stage) + "|" + key, why);
   return false;
}

// the oracle.  (prev) = another Message (previous content of the reused objects, member of the equality panel)
static void CheckRoundTrip(const Message & M, const Message & prev, uint64_t * digestOut, uint32 * sizeOut)
{
   vh::note("flatten: " + caseDesc);
   // 1
   const uint32 n = M.FlattenedSize();
   if (sizeOut) *sizeOut = n;
   if (n < 12) { Fail("size|below-header", vh::fmt("FlattenedSize() = %u", n)); return; }
   uint8 * buf = FlattenExact(M, n);
   if (digestOut) *digestOut = vh::fnv(buf, n);
   vh::stat("bytes_flattened", n);
   // 7
   { const uint8 * p = buf; std::string why; if (!Layout(p, buf + n, M, why) || p != buf + n) Fail("layout|" + std::string(why.empty() ? "trailing-bytes" : "mismatch"), (why.empty() ? vh::fmt("%ld trailing bytes", (long)(buf + n - p)) : why) + " | first bytes " + vh::hex(buf, n, 96)); else vh::stat("layout_walks_ok"); }
   // 2 fresh object
   vh::note("unflatten: " + caseDesc);
   Message m2; status_t r = m2.UnflattenFromBytes(buf, n);
   if (r.IsError()) Fail("parse|status", std::string("UnflattenFromBytes of Flatten's own output: ") + r() + " | first bytes " + vh::hex(buf, n, 96));
   // 3
   if (!caseBad) (void)Same(M, m2, true, "fresh");
   // 4
   if (!caseBad) {
      const uint32 n2 = m2.FlattenedSize();
      if (n2 != n) Fail("reflatten|size", vh::fmt("FlattenedSize() %u before, %u after the trip", n, n2));
      else { uint8 * b2 = FlattenExact(m2, n2); if (memcmp(buf, b2, n) != 0) Fail("reflatten|bytes", FirstDiff(buf, n, b2, n2)); free(b2); }
   }
   // 5
   const bool nan = ContainsNaN(M); const uint32_t nonflat = CountNonFlattenable(M);
   if (nan) vh::stat("msgs_with_nan"); if (nonflat) vh::stat("msgs_with_nonflattenable_fields");
   if (!caseBad) {
      const uint32 c1 = M.CalculateChecksum(), c2 = m2.CalculateChecksum();
      if (c1 != c2) Fail("checksum|differs", vh::fmt("CalculateChecksum() %08x before, %08x after the trip", c1, c2));
      else if (m2.CalculateChecksum(true) != c2) Fail("checksum|nonflattenable-flag", "the parsed Message has no non-flattenable fields, yet CalculateChecksum(true) != CalculateChecksum(false)");
   }
   if (!caseBad) {
      vh::note("equality: " + caseDesc);
      MessageRef stripped; const Message * ref = &M;
      if (nonflat) { stripped = Strip(M); ref = stripped(); vh::stat("equality_against_stripped_rebuild"); }
      if (!nan) {
         if (!(*ref == m2) || (*ref != m2)) Fail("equality|original==parsed", "operator== (original, parsed) is false without any NaN item");
         else if (!(m2 == *ref) || (m2 != *ref)) Fail("equality|parsed==original", "operator== (parsed, original) is false without any NaN item");
         vh::stat("equality_checked");
      }
      else vh::stat("unspecified_equality_with_nan_items");   // IEEE comparison inside ==: only consistency against the panel is demanded
      if (!caseBad) {
         // panel: same answers for the original and for the parsed Message
         // (no member may share objects with the original: == short-cuts on identical addresses, which would hide a NaN from one side only)
         Message pa; if (pa.UnflattenFromBytes(buf, n).IsError()) Fail("parse|status", "second parse of the same bytes fails");
         Message pb(m2); pb.what++;
         Message pc(m2); const String * first = pc.GetFirstFieldNameString(); const bool hasField = first != NULL; if (hasField) { String nm = *first; (void)pc.RemoveName(nm); }
         Message pd(m2.what);
         const Message * panel[5] = {&pa, &pb, &pc, &pd, &prev};
         for (int i = 0; i < 5 && !caseBad; i++) {
            const Message & P = *panel[i];
            if ((*ref == P) != (m2 == P) || (P == *ref) != (P == m2)) Fail("equality|panel", vh::fmt("panel member %d: original==P %d, parsed==P %d, P==original %d, P==parsed %d", i, (int)(*ref == P), (int)(m2 == P), (int)(P == *ref), (int)(P == m2)));
         }
         if (!caseBad && (m2 == pb || pb == m2)) Fail("equality|what-ignored", "a Message with a different what code compares equal");
         if (!caseBad && hasField && (m2 == pc || pc == m2)) Fail("equality|field-ignored", "a Message lacking the first field compares equal");
      }
   }
   // 2b reused object
   if (!caseBad) {
      vh::note("unflatten into reused object: " + caseDesc);
      Message reused(prev);
      r = reused.UnflattenFromBytes(buf, n);
      if (r.IsError()) Fail("parse-reused|status", std::string("UnflattenFromBytes into an object that held another Message: ") + r());
      else if (Same(m2, reused, false, "reused")) {
         const uint32 n3 = reused.FlattenedSize();
         if (n3 != n) Fail("reused|size", vh::fmt("FlattenedSize() %u vs %u", n, n3)); else { uint8 * b3 = FlattenExact(reused, n3); if (memcmp(buf, b3, n) != 0) Fail("reused|bytes", FirstDiff(buf, n, b3, n3)); free(b3); }
      }
   }
   // 6
   if (!caseBad) {
      vh::note("FlattenToByteBuffer: " + caseDesc);
      ByteBufferRef bb = M.FlattenToByteBuffer();
      if (bb() == NULL) Fail("bytebuffer|null", "FlattenToByteBuffer() returned a NULL reference");
      else if (bb()->GetNumBytes() != n || memcmp(bb()->GetBuffer(), buf, n) != 0) Fail("bytebuffer|bytes", FirstDiff(buf, n, bb()->GetBuffer(), bb()->GetNumBytes()));
      else {
         Message m4(prev); r = m4.UnflattenFromByteBuffer(bb);
         if (r.IsError()) Fail("bytebuffer|parse-status", r()); else (void)Same(m2, m4, false, "bytebuffer");
      }
      if (!caseBad) {   // the idiom of the documentation examples: ByteBuffer buf(msg.FlattenedSize()); msg.FlattenToByteBuffer(buf); other.UnflattenFromByteBuffer(buf)
         ByteBuffer b5(M.FlattenedSize()); r = M.FlattenToByteBuffer(b5);
         if (r.IsError() || b5.GetNumBytes() != n || memcmp(b5.GetBuffer(), buf, n) != 0) Fail("bytebuffer|bytes", "FlattenToByteBuffer(ByteBuffer &): " + FirstDiff(buf, n, b5.GetBuffer(), b5.GetNumBytes()));
         else { Message m5; r = m5.UnflattenFromByteBuffer(b5); if (r.IsError()) Fail("bytebuffer|parse-status", r()); else (void)Same(m2, m5, false, "bytebuffer"); }
      }
      if (!caseBad) { MessageRef pm = GetMessageFromPool(buf, n); if (pm() == NULL) Fail("frompool|null", "GetMessageFromPool(bytes, n) returned a NULL reference for Flatten's own output"); else (void)Same(m2, *pm(), false, "frompool"); }
   }
   if (!caseBad) {
      vh::note("copy: " + caseDesc);
      Message m6(M);   // copy constructor: everything, incl. pointer and tag fields
      if (Same(M, m6, false, "copy")) {
         if (m6.FlattenedSize() != n) Fail("copy|size", vh::fmt("FlattenedSize() %u, copy %u", n, m6.FlattenedSize()));
         else { uint8 * b6 = FlattenExact(m6, n); if (memcmp(buf, b6, n) != 0) Fail("copy|bytes", FirstDiff(buf, n, b6, n)); free(b6); }
         if (!caseBad && (m6.CalculateChecksum() != M.CalculateChecksum() || m6.CalculateChecksum(true) != M.CalculateChecksum(true))) Fail("copy|checksum", "checksum of the copy differs");
         // operator== compares tag objects by address (ByteBuffers by content) and a copy may hold a clone of an inline tag: not part of C01
         if (nonflat) vh::stat("unspecified_copy_equality_with_pointer_or_tag_fields");
         else if (!caseBad && !nan && (!(m6 == M) || !(M == m6))) Fail("copy|equality", "copy != original without any NaN item");
      }
      if (!caseBad) {
         Message m7(prev); m7 = M;   // assignment over previous content
         if (Same(M, m7, false, "assign")) {
            if (m7.FlattenedSize() != n) Fail("assign|size", vh::fmt("FlattenedSize() %u, assigned %u", n, m7.FlattenedSize()));
            else { uint8 * b7 = FlattenExact(m7, n); if (memcmp(buf, b7, n) != 0) Fail("assign|bytes", FirstDiff(buf, n, b7, n)); free(b7); }
         }
         m7 = m2; if (!caseBad) (void)Same(m2, m7, false, "assign");
      }
   }
   free(buf);
}

static void CountTrace(const GenTrace & tr)
{
   for (int t = 0; t < NUM_TC; t++) for (int s = 0; s < NUM_RS; s++) if (tr.cells[t][s]) vh::stat(std::string("cell_") + TypeClassName(t) + "_" + RepStateName(s), tr.cells[t][s]);
   for (int o = 0; o < NUM_OP; o++) if (tr.ops[o]) vh::stat(std::string("op_") + OpName(o), tr.ops[o]);
   vh::stat("field_scripts", tr.fieldScripts); vh::stat("items_generated", tr.items); vh::stat("sub_messages", tr.subMessages);
   if (tr.aliases) vh::stat("fields_aliased_in_same_message", tr.aliases);
   if (tr.sharedLeft) vh::stat("fields_left_shared_with_live_scratch_message", tr.sharedLeft);
   if (tr.zeroLengthItems) vh::stat("zero_length_items", tr.zeroLengthItems);
   if (tr.nanItems) vh::stat("nan_items", tr.nanItems);
   vh::stat(vh::fmt("msgs_reaching_depth_%u", tr.maxDepthReached));
   vh::statmax("max_depth", tr.maxDepthReached);
}

static void RunCase(long k, uint64_t cs, bool product)
{
   vh::Rng g(cs); caseBad = false; caseDesc = "(generating)";
   GenOptions o = GenOptions::Full(); o.sizeClass = (int)vh::optl("size", SIZE_NORMAL);
   GenOptions small = GenOptions::Small();
   MessageRef prev = GenMessage(g, small);                 // previous content of reused objects
   GenTrace tr; tr.wantScript = vh::want_sample();
   MessageRef mr;
   if (product) {
      // enumerated: type class x representation state (the 7 named ones) x position of the field (first / middle / last of three)
      const int cls = (int)(k % NUM_TC), st = (int)((k / NUM_TC) % (NUM_RS - 1)), pos = (int)((k / (NUM_TC * (NUM_RS - 1))) % 3);
      mr = GetMessageFromPool((uint32)g.next()); if (mr() == NULL) HarnessAbort("GetMessageFromPool");
      GenOptions po = o; po.maxDepth = 2;
      for (int i = 0; i < 3; i++) {
         if (i == pos) AddFieldInState(g, po, *mr(), "target", cls, st, &tr);
         else { int fc, fs; do { fc = (int)g.R(NUM_TC); } while (fc == TC_MESSAGE); fs = RS_INLINE1 + (int)g.R(4); AddFieldInState(g, po, *mr(), i == 0 ? "filler_a" : (i == 1 ? "filler_b" : "filler_c"), fc, fs, NULL); }
      }
      vh::stat(std::string("product_") + TypeClassName(cls) + "_" + RepStateName(st));
   }
   else mr = GenMessage(g, o, &tr);
   CountTrace(tr);
   const Message & M = *mr();
   caseDesc = DescribeMessage(M);
   uint64_t dig = 0; uint32 size = 0;
   CheckRoundTrip(M, *prev(), &dig, &size);
   vh::distinct(dig, size > 12);   // non-trivial: at least one field reaches the wire
   vh::statmax("max_flattened_size", size);
   if (size > 12) vh::stat("msgs_with_wire_fields");
   if (tr.wantScript) { uint8 * b = FlattenExact(M, size); vh::sample(vh::fmt("case %ld (%u bytes): script ", k, size) + tr.script + " => " + caseDesc + " => " + vh::hex(b, size, 64)); free(b); }
}

// ---- fixed witnesses and documentation examples -------------------------------------------------------------------------------
static long rcase = 0;
static void Reg(const char * name, const Message & m)
{
   vh::begin_case(rcase++); caseBad = false; caseDesc = std::string(name) + ": " + DescribeMessage(m);
   Message prev(77); (void)prev.AddString("old", "content"); (void)prev.AddInt32("old2", 1); (void)prev.AddInt32("old2", 2);
   uint64_t dig = 0; uint32 size = 0;
   CheckRoundTrip(m, prev, &dig, &size);
   vh::distinct(dig, true); vh::stat("regress_messages");
}
#define MUST(x) do { if ((x).IsError()) HarnessAbort(std::string("regress build step failed: ") + #x); } while (0)
static void Expect(bool ok, const char * key, const char * what) { if (!ok) { caseBad = false; Fail(std::string("regress|") + key, what); } }

class DeliveryInfo : public Flattenable {   // html/muscle-by-example/examples/message/example_4_add_flat.cpp
public:
   DeliveryInfo() : _zipCode(0) {}
   DeliveryInfo(const String & name, const String & address, const String & city, const String & state, int32 zipCode) : _name(name), _address(address), _city(city), _state(state), _zipCode(zipCode) {}
   virtual bool IsFixedSize() const { return false; }
   virtual uint32 TypeCode() const { return 1887074914; }
   virtual uint32 FlattenedSize() const { return _name.FlattenedSize() + _address.FlattenedSize() + _city.FlattenedSize() + _state.FlattenedSize() + sizeof(_zipCode); }
   virtual void Flatten(DataFlattener flat) const { flat.WriteFlat(_name); flat.WriteFlat(_address); flat.WriteFlat(_city); flat.WriteFlat(_state); flat.WriteInt32(_zipCode); }
   virtual status_t Unflatten(DataUnflattener & unflat) { _name = unflat.ReadFlat<String>(); _address = unflat.ReadFlat<String>(); _city = unflat.ReadFlat<String>(); _state = unflat.ReadFlat<String>(); _zipCode = unflat.ReadInt32(); return unflat.GetStatus(); }
   bool operator==(const DeliveryInfo & o) const { return _name == o._name && _address == o._address && _city == o._city && _state == o._state && _zipCode == o._zipCode; }
private:
   String _name, _address, _city, _state; int32 _zipCode;
};

static void Regress()
{
   { Message m; Reg("empty Message", m); Expect(m.FlattenedSize() == 12, "doc-12-bytes", "Message.h: 'A flattened Message can be as small as 12 bytes'"); }
   // representation edge states (design probe rt.cpp)
   { Message m(1); MUST(m.AddInt32("i", 1)); MUST(m.AddInt32("i", 2)); MUST(m.RemoveData("i", 1)); Reg("int32 array-of-one", m); }
   { Message m(1); MUST(m.AddString("s", "a")); MUST(m.AddString("s", "b")); MUST(m.RemoveData("s", 0)); Reg("string array-of-one", m); }
   { Message m(1); MUST(m.AddMessage("m", GetMessageFromPool(5))); MUST(m.AddMessage("m", GetMessageFromPool(6))); MUST(m.RemoveData("m", 0)); Reg("message array-of-one", m); }
   { Message m(1); uint8 d[3] = {1, 2, 3}; MUST(m.AddData("r", B_RAW_TYPE, d, 3)); MUST(m.AddData("r", B_RAW_TYPE, d, 2)); MUST(m.RemoveData("r", 1)); Reg("raw array-of-one", m); }
   { Message m(1); MUST(m.AddBool("b", true)); MUST(m.AddBool("b", false)); MUST(m.RemoveData("b", 0)); Reg("bool array-of-one", m); }
   { Message m(1); float f; uint32 b = 0x7fc00000; memcpy(&f, &b, 4); MUST(m.AddFloat("f", f)); Reg("float NaN inline", m); }
   { Message m(1); float f; uint32 b = 0x7f800001; memcpy(&f, &b, 4); MUST(m.AddFloat("f", f)); MUST(m.AddFloat("f", -0.0f)); Reg("float signalling NaN + -0 array", m); }
   { Message m(1); MUST(m.AddPoint("p", Point(1, 2))); MUST(m.AddPoint("p", Point(3, 4))); MUST(m.RemoveData("p", 1)); Reg("point array-of-one", m); }
   { Message m(1); MUST(m.AddRect("r", Rect(1, 2, 3, 4))); Reg("rect inline", m); }
   { Message m(1); MUST(m.AddRect("r", Rect(1, 2, 3, 4))); MUST(m.AddRect("r", Rect(5, 6, 7, 8))); Reg("rect array", m); }
   { Message m(1); uint8 d[3] = {1, 2, 3}; MUST(m.AddData("u", 0x12345678, d, 3)); Reg("user type inline", m); }
   { Message m(1); MUST(m.AddString("", "")); Reg("empty name, empty string", m); }
   { Message m(1); MUST(m.AddPointer("p", &m)); MUST(m.AddInt8("x", 5)); Reg("pointer + int8", m); }
   { Message m(1); MUST(m.AddFlat("z", GetByteBufferFromPool(0))); Reg("zero-length raw via AddFlat", m); }
   { Message m(1); MUST(m.AddFlat("z", GetByteBufferFromPool(0))); MUST(m.AddFlat("z", GetByteBufferFromPool(0))); Reg("two zero-length raw items", m); }
   { Message m(1); MUST(m.AddFlat("u", Blob(0x75737231, std::string()))); Reg("zero-length user-type item via AddFlat(object)", m); }
   { Message m(1); MUST(m.AddTag("t", GetMessageFromPool(3).GetRefCountableRef())); MUST(m.AddTag("t", GetMessageFromPool(4).GetRefCountableRef())); MUST(m.AddInt64("x", -1)); MUST(m.MoveNameToFront("x")); Reg("tag array + int64 moved to front", m); }
   { Message m(1); for (int i = 0; i < 300; i++) MUST(m.AddBool("b", (i % 3) == 0)); for (int i = 0; i < 17; i++) MUST(m.PrependInt16("s", (int16)(i * 1000 - 8000))); Reg("300 bools, 17 prepended int16", m); }
   { MessageRef d4 = GetMessageFromPool(4); MUST(d4()->AddString("leaf", "x")); MessageRef d3 = GetMessageFromPool(3); MUST(d3()->AddMessage("d4", d4)); MUST(d3()->AddMessage("d4", d4)); MessageRef d2 = GetMessageFromPool(2); MUST(d2()->AddMessage("d3", d3)); MessageRef d1 = GetMessageFromPool(1); MUST(d1()->AddMessage("d2", d2)); MUST(d1()->AddPointer("p", NULL));
     Message m(0); MUST(m.AddMessage("d1", d1)); MUST(m.AddMessage("d1", d1)); MUST(m.AddMessage("d1", d1)); Reg("nesting depth 4, shared sub-Messages, pointer at depth 1", m); }
   // the layout comment of Message::Flatten(), byte for byte
   { Message m(0x01020304); MUST(m.AddInt32("a", 5)); Reg("layout witness", m);
     static const uint8 want[30] = {0x30, 0x30, 0x4D, 0x50, 0x04, 0x03, 0x02, 0x01, 1, 0, 0, 0, 2, 0, 0, 0, 'a', 0, 0x47, 0x4E, 0x4F, 0x4C, 4, 0, 0, 0, 5, 0, 0, 0};
     uint8 got[30]; const bool sz = m.FlattenedSize() == 30; if (sz) m.FlattenToBytes(got, 30); Expect(sz && memcmp(got, want, 30) == 0, "layout-witness", "Message(0x01020304){a:int32=5} does not flatten to the 30 documented bytes"); }
   { Message m(0); MUST(m.AddBool("b", true)); Reg("one bool", m); Expect(m.FlattenedSize() == 12 + 4 + 2 + 4 + 4 + 1, "bool-one-byte", "a bool item must flatten to one byte"); }
   // documentation examples (html/muscle-by-example/examples/message/example_1, _2, _4)
   { Message orderPizzaMsg(1887074913); MUST(orderPizzaMsg.AddInt32("size_inches", 16)); MUST(orderPizzaMsg.AddBool("vegan", false)); MUST(orderPizzaMsg.AddString("toppings", "cheese")); MUST(orderPizzaMsg.AddString("toppings", "pepperoni")); MUST(orderPizzaMsg.AddString("toppings", "mushrooms")); MUST(orderPizzaMsg.AddFloat("price", 16.50f));
     Reg("docex example_1_basic_usage", orderPizzaMsg);
     ByteBuffer buf(orderPizzaMsg.FlattenedSize()); MUST(orderPizzaMsg.FlattenToByteBuffer(buf)); Message anotherMsg; MUST(anotherMsg.UnflattenFromByteBuffer(buf));
     int32 sizeInches = 0; bool vegan = true; float price = 0; String t0, t2;
     Expect(anotherMsg.what == 1887074913 && anotherMsg.FindInt32("size_inches", sizeInches).IsOK() && sizeInches == 16 && anotherMsg.FindBool("vegan", vegan).IsOK() && !vegan && anotherMsg.FindFloat("price", price).IsOK() && price == 16.50f
            && anotherMsg.FindString("toppings", 0, t0).IsOK() && t0 == "cheese" && anotherMsg.FindString("toppings", 2, t2).IsOK() && t2 == "mushrooms" && anotherMsg.GetNumValuesInName("toppings") == 3, "docex-1", "example_1: values read back from the unflattened Message");
     MessageRef deliveryInfoMsg = GetMessageFromPool(1887074914); MUST(deliveryInfoMsg()->AddString("name", "Hungry Joe")); MUST(deliveryInfoMsg()->AddString("address", "20 West Montecito Ave")); MUST(deliveryInfoMsg()->AddString("city", "Sierra Madre")); MUST(deliveryInfoMsg()->AddString("state", "California")); MUST(deliveryInfoMsg()->AddInt32("zip_code", 91024));
     MUST(orderPizzaMsg.AddMessage("delivery_info", deliveryInfoMsg));
     Reg("docex example_2_nested_messages", orderPizzaMsg);
     MUST(orderPizzaMsg.RemoveName("delivery_info")); const DeliveryInfo di("Hungry Joe", "20 West Montecito Ave", "Sierra Madre", "California", 91024); MUST(orderPizzaMsg.AddFlat("delivery_info", di));
     Reg("docex example_4_add_flat", orderPizzaMsg);
     ByteBuffer buf4(orderPizzaMsg.FlattenedSize()); MUST(orderPizzaMsg.FlattenToByteBuffer(buf4)); Message m4; MUST(m4.UnflattenFromByteBuffer(buf4)); DeliveryInfo back;
     Expect(m4.FindFlat("delivery_info", back).IsOK() && back == di, "docex-4", "example_4: FindFlat() on the unflattened Message does not give back the object"); }
   // documented statements of Message.h
   { Message m(9); int target = 0; MUST(m.AddPointer("ptr", &target)); MUST(m.AddTag("tag", GetMessageFromPool(1).GetRefCountableRef())); MUST(m.AddInt32("kept", 3)); Reg("pointer and tag are not serialised", m);
     ByteBufferRef b = m.FlattenToByteBuffer(); Message o; MUST(o.UnflattenFromByteBuffer(b)); Expect(!o.HasName("ptr") && !o.HasName("tag") && o.HasName("kept", B_INT32_TYPE) && o.GetNumNames() == 1, "doc-nonflattenable", "Message.h: pointer fields / AddTag() objects 'will not be serialized'"); }
   { Message a(5), b(5); MUST(a.AddInt32("x", 1)); MUST(a.AddString("y", "s")); MUST(b.AddString("y", "s")); MUST(b.AddInt32("x", 1)); Reg("field order a", a); Reg("field order b", b);
     Expect(a == b && b == a && a.CalculateChecksum() == b.CalculateChecksum(), "doc-order-ignored", "Message.h operator==: 'Field ordering is not considered'");
     ByteBufferRef fa = a.FlattenToByteBuffer(), fb = b.FlattenToByteBuffer(); Expect(fa() && fb() && !(*fa() == *fb()), "order-on-wire", "two field orders must flatten differently (iteration order is the wire order)"); }
}

int main(int argc, char ** argv)
{
   CompleteSetupSystem css;
   vh::init(argc, argv);
   vh::Ctx & c = vh::ctx();
   const std::string mode = vh::opt("mode", "roundtrip");
   if (mode == "regress") { Regress(); return vh::finish(); }
   const bool product = (mode == "product");
   for (long k = c.from; k < c.from + c.cases; k++) {
      vh::begin_case(k);
      RunCase(k, vh::case_seed(c.seed, product ? 102 : 101, (uint64_t)k), product);
   }
   return vh::finish();
}
