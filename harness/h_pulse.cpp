// h_pulse -- C20: PulseNode trees under a virtual clock against a flat reference model.
// A PulseNodeManager subclass drives the protected CallGetPulseTimeAux()/CallPulseAux() with harness-chosen times, as
// ReflectServer does (recalculation sweep over 1-3 roots sharing one minimum, wait, pulse sweep).  Instrumented nodes return a
// scripted time from GetPulseTime() and perform scripted actions from inside Pulse(): invalidate self/others (with and without
// clearPrevResult), re-time, attach/detach/clear subtrees, create nodes, destroy nodes that are not on the callback stack.
// One case = one history (tree of 1-200 nodes, depth <= 8, ~100 steps).  Oracle rules (DESIGN.md C20):
//  (1) after a recalculation sweep the reported minimum == min of the times returned by all attached nodes, every attached node
//      that was invalid was asked exactly once (arguments: callback time == now, scheduled time == its previous answer, NEVER
//      after InvalidatePulseTime(true) or for a new node), no detached node is asked;
//  (2) pulse at t: a node fires only if attached, valid and due at that moment, at most once per sweep, with
//      GetScheduledTime() == the time it returned and GetCallbackTime() == t; every node attached+valid+due at sweep start fires
//      unless an operation since the last recalculation touched (invalidated/attached/detached/destroyed) a node of the same
//      top-level subtree (the not yet visited rest of that subtree is legitimately deferred);
//  (3) no due node is lost: after a sweep with deferrals a quiet cycle (recalculate, pulse at the same t, no actions) must fire
//      every node that is valid and due;  (4) a fired node is asked again in the next recalculation (part of (1));
//  (5) after every operation the public observers agree with the model (GetPulseParent, ContainsPulseChild, GetScheduledPulseTime).
// modes: model (default) | regress (documentation examples and fixed witnesses)
#include "util/PulseNode.h"
#include "system/SetupSystem.h"
#include <vector>
#include <map>
#include <set>
#include <string>
#include <algorithm>
#include "vh.h"
using namespace muscle;

static vh::Rng g(1);
static uint32_t R(uint32_t n) { return g.R(n); }

static const uint64 NEVER = MUSCLE_TIME_NEVER;
static const int MAXDEPTH = 8;
enum { IDLE = 0, RECALC, SWEEP };

struct Node;
static std::vector<Node *> all;            // by id; NULL once destroyed
static std::vector<std::string> trace;
static bool caseBad, quiet;
static int phase;
static uint64 now;
static std::set<int> touchedTops, excused, protectedNodes;   // since the last recalculation / in this sweep
static long nAsks, nFires, nActionsInCallbacks;

static std::string T(uint64 t) { return t == NEVER ? std::string("never") : vh::fmt("%llu", (unsigned long long)t); }
static void Op(const std::string & s) { trace.push_back(s); }
static void Fail(const std::string & key, const std::string & why)
{
   if (caseBad) return;
   caseBad = true;
   std::string d = why + vh::fmt(" | now=%s | last operations: ", T(now).c_str());
   size_t from = trace.size() > 70 ? trace.size() - 70 : 0;
   for (size_t i = from; i < trace.size(); i++) { d += trace[i]; d += "; "; }
   vh::viol(key, d);
}

struct Node : public PulseNode {
   int id; uint64 req;                                   // what GetPulseTime() answers
   // reference model
   bool isRoot, valid; uint64 lastReturned, sched; int parent; std::vector<int> kids;
   int asked, fired;
   Node(int i) : id(i), req(NEVER), isRoot(false), valid(false), lastReturned(NEVER), sched(NEVER), parent(-1), asked(0), fired(0) {}
   virtual uint64 GetPulseTime(const PulseArgs & a);
   virtual void Pulse(const PulseArgs & a);
};
struct Mgr : public PulseNodeManager {
   void Recalc(PulseNode & r, uint64 t, uint64 & min) { CallGetPulseTimeAux(r, t, min); }
   void Sweep(PulseNode & r, uint64 t) { CallPulseAux(r, t); }
};

// ---- model helpers
static bool Attached(const Node * n) { int guard = 0; while (n && guard++ < 100000) { if (n->isRoot) return true; if (n->parent < 0) return false; n = all[n->parent]; } return false; }
static int Top(const Node * n) { int guard = 0; while (n && n->parent >= 0 && guard++ < 100000) { Node * p = all[n->parent]; if (p->isRoot) return n->id; n = p; } return -1; }   // the child of a root above n (or n), -1 for roots and detached nodes
static int Depth(const Node * n) { int d = 0; while (n->parent >= 0) { n = all[n->parent]; d++; } return d; }
static int Height(const Node * n) { int h = 0; for (size_t i = 0; i < n->kids.size(); i++) h = std::max(h, 1 + Height(all[n->kids[i]])); return h; }
static bool IsAncestorOrSelf(const Node * a, const Node * n) { while (n) { if (n == a) return true; n = n->parent >= 0 ? all[n->parent] : NULL; } return false; }
static void Subtree(const Node * n, std::vector<int> & out) { out.push_back(n->id); for (size_t i = 0; i < n->kids.size(); i++) Subtree(all[n->kids[i]], out); }
static void Touch(const Node * n) { int t = Top(n); if (t >= 0) touchedTops.insert(t); }
static void ExcuseSubtree(const Node * n) { std::vector<int> s; Subtree(n, s); excused.insert(s.begin(), s.end()); }

static void ModelDetach(Node * c)
{
   if (c->parent < 0) return;
   Node * p = all[c->parent];
   p->kids.erase(std::find(p->kids.begin(), p->kids.end(), c->id));
   c->parent = -1; c->valid = false;          // RemovePulseChild() invalidates the child; its descendants keep their state
}

// (5) the public observers agree with the model
static void Audit()
{
   if (caseBad) return;
   vh::stat("audits");
   for (size_t i = 0; i < all.size() && !caseBad; i++) {
      Node * n = all[i]; if (!n) continue;
      PulseNode * wantP = n->parent >= 0 ? all[n->parent] : NULL;
      if (n->GetPulseParent() != wantP) { Fail("audit|GetPulseParent", vh::fmt("node %d: GetPulseParent() is %s, model parent is %d", n->id, n->GetPulseParent() ? vh::fmt("node %d", static_cast<Node *>(n->GetPulseParent())->id).c_str() : "NULL", n->parent)); return; }
      if (wantP && !wantP->ContainsPulseChild(n)) { Fail("audit|ContainsPulseChild", vh::fmt("node %d is not contained in its parent %d", n->id, n->parent)); return; }
      Node * o = all[R((uint32)all.size())];
      if (o && o != wantP && o->ContainsPulseChild(n)) { Fail("audit|ContainsPulseChild", vh::fmt("node %d is reported as a child of node %d, model parent is %d", n->id, o->id, n->parent)); return; }
      if (n->GetScheduledPulseTime() != n->sched) { Fail("audit|GetScheduledPulseTime", vh::fmt("node %d: GetScheduledPulseTime() is %s, the node last answered %s", n->id, T(n->GetScheduledPulseTime()).c_str(), T(n->sched).c_str())); return; }
   }
}

// ---- operations (outside and inside callbacks)
static Node * Pick(bool allowRoot) { for (int t = 0; t < 12; t++) { Node * n = all[R((uint32)all.size())]; if (n && (allowRoot || !n->isRoot)) return n; } return NULL; }
static uint64 PickTime()
{
   switch (R(8)) {
   case 0: return NEVER;
   case 1: return now > 60 ? now - R(60) : 0;      // past
   case 2: return now;                              // due at once
   case 3: return now + 1;
   case 4: case 5: return now + R(12);              // near future, many ties
   default: return now + R(120);
   }
}
static void DoAttach(Node * c, Node * p, const char * where)
{
   Op(vh::fmt("%sattach %d under %d", where, c->id, p->id));
   if (c->parent >= 0) Touch(c);                   // the subtree it leaves
   ExcuseSubtree(c);
   p->PutPulseChild(c);
   if (c->parent >= 0) ModelDetach(c);             // PutPulseChild() on a node that has a parent detaches it first
   c->parent = p->id; p->kids.push_back(c->id);
   Touch(c);
   vh::stat(std::string(where) + "op_attach");
}
static void DoDetach(Node * c, const char * where)
{
   Node * p = all[c->parent];
   Op(vh::fmt("%sdetach %d from %d", where, c->id, p->id));
   Touch(c); ExcuseSubtree(c);
   p->RemovePulseChild(c);
   ModelDetach(c);
   vh::stat(std::string(where) + "op_detach");
}
static void DoDestroy(Node * d, const char * where)
{
   Op(vh::fmt("%sdestroy %d", where, d->id));
   Touch(d); ExcuseSubtree(d);
   std::vector<int> kids = d->kids;
   for (size_t i = 0; i < kids.size(); i++) ModelDetach(all[kids[i]]);      // ~PulseNode: ClearPulseChildren()
   ModelDetach(d);
   all[d->id] = NULL;
   delete d;
   vh::stat(std::string(where) + "op_destroy");
}
static void Action(Node * self /* NULL outside callbacks */)
{
   const char * where = self ? "cb:" : "";
   const uint32 o = R(100);
   if (o < 22) {          // invalidate another node (or any node), with a new answer
      Node * b = Pick(true); if (!b) return;
      const bool clear = R(2) != 0; if (R(4)) b->req = PickTime();
      Op(vh::fmt("%sinvalidate %d clear=%d req=%s", where, b->id, (int)clear, T(b->req).c_str()));
      if (b->valid || b == self) Touch(b);          // (inside its own Pulse() a node still counts as valid for the scheduler)
      b->InvalidatePulseTime(clear);
      b->valid = false; if (clear) b->sched = NEVER;
      vh::stat(std::string(where) + (clear ? "op_invalidate_clear" : "op_invalidate_keep"));
   }
   else if (o < 30 && self) {   // invalidate self from inside the own callback
      const bool clear = R(2) != 0; self->req = PickTime();
      Op(vh::fmt("cb:invalidate self %d clear=%d req=%s", self->id, (int)clear, T(self->req).c_str()));
      self->InvalidatePulseTime(clear);
      Touch(self);
      self->valid = false; if (clear) self->sched = NEVER;
      vh::stat("cb:op_invalidate_self");
   }
   else if (o < 42) {     // re-time without telling the scheduler: has no effect until the node is asked again
      Node * b = (self && R(2)) ? self : Pick(true); if (!b) return;
      b->req = PickTime(); Op(vh::fmt("%sretime %d req=%s", where, b->id, T(b->req).c_str()));
      vh::stat(std::string(where) + "op_retime");
   }
   else if (o < 62) {     // attach / move a subtree
      Node * c = Pick(false), * p = Pick(true); if (!c || !p || c == p || IsAncestorOrSelf(c, p)) return;
      if (Depth(p) + 1 + Height(c) > MAXDEPTH) return;
      if (self && IsAncestorOrSelf(c, self)) { if (R(3)) return; vh::stat("cb:op_moved_a_node_of_the_callback_stack"); }
      DoAttach(c, p, where);
   }
   else if (o < 74) {     // detach
      Node * c = Pick(false); if (!c || c->parent < 0) return;
      if (self && IsAncestorOrSelf(c, self)) { if (R(3)) return; vh::stat("cb:op_detached_a_node_of_the_callback_stack"); }
      DoDetach(c, where);
   }
   else if (o < 77) {     // ClearPulseChildren
      Node * p = Pick(true); if (!p || p->kids.empty() || p->kids.size() > 6) return;
      if (self) for (size_t i = 0; i < p->kids.size(); i++) if (IsAncestorOrSelf(all[p->kids[i]], self)) return;
      Op(vh::fmt("%sclear children of %d", where, p->id));
      std::vector<int> kids = p->kids;
      for (size_t i = 0; i < kids.size(); i++) { Touch(all[kids[i]]); ExcuseSubtree(all[kids[i]]); }
      p->ClearPulseChildren();
      for (size_t i = 0; i < kids.size(); i++) ModelDetach(all[kids[i]]);
      vh::stat(std::string(where) + "op_clear_children");
   }
   else if (o < 84) {     // destroy a node that is not on the callback stack
      Node * d = Pick(false); if (!d) return;
      if (self && (d == self || protectedNodes.count(d->id))) return;
      if (phase == SWEEP && protectedNodes.count(d->id)) return;
      DoDestroy(d, where);
   }
   else if (o < 92 && all.size() < 260) {   // a new node
      Node * p = Pick(true); if (!p || Depth(p) + 1 > MAXDEPTH) return;
      Node * n = new Node((int)all.size()); all.push_back(n); n->req = PickTime();
      Op(vh::fmt("%snew node %d req=%s", where, n->id, T(n->req).c_str()));
      DoAttach(n, p, where);
   }
   else if (self) {       // the usual thing: decide the next time inside the own callback (asked again right after Pulse())
      self->req = R(3) ? now + 1 + R(25) : PickTime(); Op(vh::fmt("cb:next time of %d = %s", self->id, T(self->req).c_str()));
      vh::stat("cb:op_next_time");
   }
}

uint64 Node::GetPulseTime(const PulseArgs & a)
{
   nAsks++; asked++;
   Op(vh::fmt("ask %d -> %s", id, T(req).c_str()));
   if (phase != RECALC) Fail("asked|outside_recalculation", vh::fmt("GetPulseTime() of node %d called outside a recalculation sweep", id));
   else if (!Attached(this)) Fail("asked|detached_node", vh::fmt("GetPulseTime() of node %d called although it is not attached to a root", id));
   else if (a.GetCallbackTime() != now) Fail("asked|callback_time_arg", vh::fmt("node %d: GetCallbackTime() %s", id, T(a.GetCallbackTime()).c_str()));
   else if (a.GetScheduledTime() != sched) Fail("asked|scheduled_time_arg", vh::fmt("node %d: GetScheduledTime() is %s, documented: the previous answer (%s)", id, T(a.GetScheduledTime()).c_str(), T(sched).c_str()));
   if (valid) vh::stat("unspecified_valid_node_asked_again");
   valid = true; lastReturned = sched = req;
   return req;
}

void Node::Pulse(const PulseArgs & a)
{
   nFires++;
   Op(vh::fmt("FIRE %d (asked for %s)", id, T(lastReturned).c_str()));
   const bool att = Attached(this);
   if (phase != SWEEP) Fail("fired|outside_pulse_sweep", vh::fmt("Pulse() of node %d called outside a pulse sweep", id));
   else if (fired > 0) Fail("fired|twice_in_one_sweep", vh::fmt("node %d fired again in the same sweep", id));
   else if (!att && !excused.count(id)) Fail("fired|not_attached", vh::fmt("node %d fired although it is not attached to a root", id));
   else if (!valid) Fail("fired|not_valid", vh::fmt("node %d fired although its time was invalidated and it has not been asked since", id));
   else if (lastReturned > now) Fail("fired|before_its_time", vh::fmt("node %d fired at %s, it asked for %s", id, T(now).c_str(), T(lastReturned).c_str()));
   else if (a.GetScheduledTime() != lastReturned) Fail("fired|scheduled_time_arg", vh::fmt("node %d: GetScheduledTime() is %s, the node asked for %s", id, T(a.GetScheduledTime()).c_str(), T(lastReturned).c_str()));
   else if (a.GetCallbackTime() != now) Fail("fired|callback_time_arg", vh::fmt("node %d: GetCallbackTime() is %s", id, T(a.GetCallbackTime()).c_str()));
   if (!att) vh::stat("unspecified_fired_after_detach_in_same_sweep");
   if (lastReturned == now) vh::stat("fired_exactly_at_their_time");
   fired++; valid = false;
   for (const Node * n = this; n; n = n->parent >= 0 ? all[n->parent] : NULL) protectedNodes.insert(n->id);   // PulseAux() frames that may be active
   if (!quiet && !caseBad) {
      const int na = R(3) == 0 ? 0 : 1 + (int)R(2);
      for (int i = 0; i < na && !caseBad; i++) { nActionsInCallbacks++; Action(this); }
   }
}

// ---- one cycle
static std::vector<Node *> roots;
static Mgr mgr;

static void Recalculate()
{
   std::set<int> wasInvalid;
   for (size_t i = 0; i < all.size(); i++) if (all[i]) { all[i]->asked = 0; if (!all[i]->valid && Attached(all[i])) wasInvalid.insert((int)i); }
   Op(vh::fmt("RECALC at %s", T(now).c_str()));
   phase = RECALC; uint64 min = NEVER;
   for (size_t r = 0; r < roots.size(); r++) mgr.Recalc(*roots[r], now, min);
   phase = IDLE; vh::stat("recalculations");
   if (caseBad) return;
   uint64 want = NEVER;
   for (size_t i = 0; i < all.size(); i++) {
      Node * n = all[i]; if (!n) continue;
      const bool inv = wasInvalid.count((int)i) > 0;
      if (inv && n->asked != 1) { Fail(n->asked ? "recalc|asked_more_than_once" : "recalc|invalid_node_not_asked", vh::fmt("node %d was attached and invalid, GetPulseTime() was called %d times", n->id, n->asked)); return; }
      if (Attached(n)) { if (!n->valid) { Fail("recalc|invalid_node_not_asked", vh::fmt("node %d is attached and still invalid", n->id)); return; } if (n->lastReturned < want) want = n->lastReturned; }
   }
   if (min != want) { Fail(min < want ? "recalc|minimum_too_early" : "recalc|minimum_too_late", vh::fmt("reported minimum %s, minimum over the attached nodes %s", T(min).c_str(), T(want).c_str())); return; }
   Op(vh::fmt("min=%s", T(min).c_str()));
   touchedTops.clear(); excused.clear();
   Audit();
}

// returns the number of deferred (due, not fired, excused) nodes
static long PulseSweep()
{
   std::map<int, int> dueAtStart;    // id -> top-level subtree at sweep start
   for (size_t i = 0; i < all.size(); i++) if (all[i]) { all[i]->fired = 0; if (all[i]->valid && all[i]->lastReturned <= now && Attached(all[i])) dueAtStart[(int)i] = Top(all[i]); }
   Op(vh::fmt("%sPULSE at %s (%zu due)", quiet ? "QUIET " : "", T(now).c_str(), dueAtStart.size()));
   protectedNodes.clear();
   phase = SWEEP;
   for (size_t r = 0; r < roots.size(); r++) mgr.Sweep(*roots[r], now);
   phase = IDLE; vh::stat("pulse_sweeps"); if (quiet) vh::stat("quiet_sweeps");
   protectedNodes.clear();
   if (caseBad) return 0;
   long deferred = 0;
   for (std::map<int, int>::const_iterator it = dueAtStart.begin(); it != dueAtStart.end(); ++it) {
      Node * n = all[it->first]; if (!n || n->fired) continue;
      if (!n->valid || !Attached(n)) continue;                      // invalidated, detached itself: nothing is owed in this sweep
      const int topNow = Top(n);
      const bool ex = excused.count(n->id) || (it->second >= 0 && touchedTops.count(it->second)) || (topNow >= 0 && touchedTops.count(topNow));
      if (ex && !quiet) { deferred++; continue; }
      Fail(quiet ? "not_fired|due_node_in_quiet_sweep" : "not_fired|due_node_in_untouched_subtree", vh::fmt("node %d is attached, valid and due (asked for %s) and did not fire", n->id, T(n->lastReturned).c_str()));
      return 0;
   }
   if (deferred) vh::stat("deferred_nodes", deferred);
   Audit();
   return deferred;
}

static void Cycle()
{
   quiet = false;
   Recalculate(); if (caseBad) return;
   uint64 min = NEVER; for (size_t i = 0; i < all.size(); i++) if (all[i] && Attached(all[i]) && all[i]->lastReturned < min) min = all[i]->lastReturned;
   if (min != NEVER && R(4)) now = std::max(now, min) + (R(2) ? 0 : R(3) * R(30)); else now += R(20);
   if (R(3) == 0) { const int n = 1 + (int)R(3); for (int i = 0; i < n && !caseBad; i++) { Action(NULL); Audit(); } vh::stat("cycles_with_operations_between_recalculation_and_pulse"); }
   if (caseBad) return;
   const long deferred = PulseSweep(); if (caseBad) return;
   if (deferred || R(5) == 0) {       // (3) no due node is lost
      quiet = true; if (deferred) vh::stat("quiet_cycles_after_deferral");
      Recalculate(); if (caseBad) return;
      (void)PulseSweep();
      quiet = false;
   }
}

static void RunCase(long k, uint64_t cs)
{
   g = vh::Rng(cs); trace.clear(); caseBad = false; quiet = false; phase = IDLE; now = 1000; touchedTops.clear(); excused.clear(); protectedNodes.clear();
   nAsks = nFires = nActionsInCallbacks = 0; all.clear(); roots.clear();
   const uint32 N = R(3) == 0 ? 1 + R(8) : (R(2) ? 1 + R(40) : 1 + R(200));
   const uint32 nr = std::min<uint32>(N, R(4) == 0 ? 1 + R(3) : 1);
   int maxDepth = 0;
   for (uint32 i = 0; i < N; i++) {
      Node * n = new Node((int)i); all.push_back(n); n->req = PickTime();
      if (i < nr) { n->isRoot = true; roots.push_back(n); continue; }
      if (R(10) == 0) continue;                                  // stays detached for now
      Node * p = all[R(i)];
      if (R(3) == 0) { int guard = 0; while (Depth(p) + 1 < MAXDEPTH && !p->kids.empty() && guard++ < 8) p = all[p->kids[R((uint32)p->kids.size())]]; }   // grow deep chains too
      if (Depth(p) + 1 > MAXDEPTH) continue;
      p->PutPulseChild(n); n->parent = p->id; p->kids.push_back(n->id);
      maxDepth = std::max(maxDepth, Depth(n));
   }
   Op(vh::fmt("tree of %u nodes, %u roots, depth %d", N, nr, maxDepth));
   Audit();
   const int steps = 60 + (int)R(90);
   for (int s = 0; s < steps && !caseBad; s++) {
      if (R(100) < 40) { Action(NULL); Audit(); } else Cycle();
   }
   if (!caseBad) { quiet = true; Recalculate(); if (!caseBad) (void)PulseSweep(); quiet = false; }
   size_t live = 0; for (size_t i = 0; i < all.size(); i++) if (all[i]) live++;
   vh::stat("asks", nAsks); vh::stat("fires", nFires); vh::stat("actions_inside_callbacks", nActionsInCallbacks);
   vh::statmax("max_nodes", (long)all.size()); vh::statmax("max_depth", maxDepth);
   if (N >= 100) vh::stat("cases_with_100_or_more_nodes"); if (N == 1) vh::stat("cases_with_a_single_node"); if (nr > 1) vh::stat("cases_with_several_roots"); if (maxDepth >= 7) vh::stat("cases_depth_7_or_8");
   vh::distinct(vh::fnv(&cs, sizeof(cs)), nFires >= 10 && N >= 3 && nActionsInCallbacks >= 3);
   if (vh::want_sample()) { std::string s = vh::fmt("case %ld: %u nodes, %ld asks, %ld fires, %ld in-callback actions: ", k, N, nAsks, nFires, nActionsInCallbacks); for (size_t i = 0; i < trace.size() && i < 30; i++) { s += trace[i]; s += "; "; } vh::sample(s + "..."); }
   // destruction in a random order (no ownership: ~PulseNode unlinks)
   std::vector<Node *> rest; for (size_t i = 0; i < all.size(); i++) if (all[i]) rest.push_back(all[i]);
   for (size_t i = rest.size(); i > 1; i--) std::swap(rest[i - 1], rest[R((uint32)i)]);
   for (size_t i = 0; i < rest.size(); i++) { all[rest[i]->id] = NULL; delete rest[i]; }
   all.clear(); roots.clear();
}

// ---- documentation examples / fixed witnesses
static void Regress()
{
   g = vh::Rng(20);
   {  // sorted scheduled list: three children asking for 30, 10, 20 -> minimum 10, pulse at 20 fires exactly the two due ones with their own times
      vh::begin_case(0); trace.clear(); caseBad = false; all.clear(); roots.clear(); now = 0; quiet = true; touchedTops.clear(); excused.clear();
      for (int i = 0; i < 4; i++) all.push_back(new Node(i));
      all[0]->isRoot = true; roots.push_back(all[0]);
      const uint64 t[4] = {NEVER, 30, 10, 20};
      for (int i = 0; i < 4; i++) { all[i]->req = t[i]; if (i) { all[0]->PutPulseChild(all[i]); all[i]->parent = 0; all[0]->kids.push_back(i); } }
      Recalculate();
      now = 20; for (int i = 0; i < 4; i++) all[i]->req = NEVER;
      if (!caseBad) (void)PulseSweep();
      if (!caseBad && (all[1]->fired || !all[2]->fired || !all[3]->fired)) Fail("regress|three_children", "expected exactly the children asking for 10 and 20 to fire at 20");
      // doc: "Immediately after our Pulse() method has been called" GetPulseTime() is called again; args.GetScheduledTime() = previous answer
      if (!caseBad) { Recalculate(); if (!caseBad && (all[2]->asked != 1 || all[3]->asked != 1 || all[1]->asked != 0)) Fail("regress|asked_after_pulse", "fired nodes must be asked again, the others not"); }
      // doc: InvalidatePulseTime(true) -> args.GetScheduledTime() is MUSCLE_TIME_NEVER at the next call; (false) -> left as is   (checked by the model in GetPulseTime)
      if (!caseBad) { all[1]->InvalidatePulseTime(false); all[1]->valid = false; all[2]->InvalidatePulseTime(true); all[2]->valid = false; all[2]->sched = NEVER; all[1]->req = 40; Recalculate(); }
      // a node that answered never and is invalidated with a new time is asked again and fires
      if (!caseBad) { all[3]->req = 25; all[3]->InvalidatePulseTime(); all[3]->valid = false; all[3]->sched = NEVER; Recalculate(); now = 25; if (!caseBad) (void)PulseSweep(); if (!caseBad && !all[3]->fired) Fail("regress|unscheduled_node_rescheduled", "node 3 did not fire at 25"); }
      // detaching the earliest child: the minimum follows
      if (!caseBad) { all[3]->req = NEVER; Recalculate(); }
      if (!caseBad) { all[1]->req = 26; all[1]->InvalidatePulseTime(); all[1]->valid = false; all[1]->sched = NEVER; Recalculate(); all[0]->RemovePulseChild(all[1]); ModelDetach(all[1]); Recalculate(); }
      for (int i = 3; i >= 0; i--) { delete all[i]; } all.clear(); roots.clear();
      vh::distinct(1);
   }
}

int main(int argc, char ** argv)
{
   CompleteSetupSystem css;
   vh::init(argc, argv);
   vh::Ctx & c = vh::ctx();
   if (vh::opt("mode", "model") == "regress") { Regress(); return vh::finish(); }
   for (long k = c.from; k < c.from + c.cases; k++) { vh::begin_case(k); RunCase(k, vh::case_seed(c.seed, 2001, (uint64_t)k)); }
   return vh::finish();
}
