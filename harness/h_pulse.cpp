// h_pulse -- C20: PulseNode trees under a virtual clock against a flat reference model.
// A PulseNodeManager subclass drives the protected CallGetPulseTimeAux()/CallPulseAux() with harness-chosen times, as
// ReflectServer does (recalculation sweep over 1-3 roots sharing one minimum, wait, pulse sweep).  Instrumented nodes return a
// scripted time from GetPulseTime() and perform scripted actions from inside Pulse(): invalidate self/others (with and without
// clearPrevResult), re-time, attach/detach/clear subtrees, create nodes, destroy nodes that are not on the callback stack.
// One case = one history (tree of 1-200 nodes, depth <= 8, ~100 steps).  Oracle rules (DESIGN.md C20):
//  (1) after a recalculation sweep the reported minimum == min of the times returned by all attached nodes, every attached node
//      that was invalid was asked exactly once (arguments: callback time == now, scheduled time == its previous answer, NEVER
//      after InvalidatePulseTime(true) or for a new node), no detached node is asked;
//  (2) pulse at t: a node fires only if attached, valid and due at that moment, at most once per sweep, with
//      GetScheduledTime() == the time it returned and GetCallbackTime() == t; every node attached+valid+due at sweep start fires
//      unless an operation since the last recalculation touched (invalidated/attached/detached/destroyed) a node of the same
//      top-level subtree (the not yet visited rest of that subtree is legitimately deferred);
//  (3) no due node is lost: after a sweep with deferrals a quiet cycle (recalculate, pulse at the same t, no actions) must fire
//      every node that is valid and due;  (4) a fired node is asked again in the next recalculation (part of (1));
//  (5) after every operation the public observers agree with the model (GetPulseParent, ContainsPulseChild, GetScheduledPulseTime).
// modes: model (default) | server | regress (documentation examples and fixed witnesses)
// mode=server: the root manager of the real tree, ReflectServer (reflector/ReflectServer.cpp), on the real clock: instrumented ReflectSessionFactory
// subclasses (some refusing connections for a while, some wanting pulses; PutAcceptFactory on port 0 / loopback), instrumented sessions attached
// with AddNewSession() over socket pairs, extra PulseNode children under sessions / factories / the server; ServerProcessLoop(0) steps and
// ServerProcessLoop(now + 40..60 ms) waits.  Verdicts are causal, never lateness: (a) a node fires only when valid, not before the time it asked
// for (callback time and real clock), with GetScheduledTime() == that time; (b) after ServerProcessLoop(runUntil) has returned and one quiet
// cycle has run (its cycle start is >= runUntil), no attached valid node may still have a time <= runUntil unserved; (c) at the moment the
// server waits (first callback of a cycle, or its end) every attached node has been asked, and the wake-up time the server reports is the
// minimum of their answers; (d) one fire per answer.
#include "util/PulseNode.h"
#include "system/SetupSystem.h"
#include "reflector/ReflectServer.h"
#include "reflector/DumbReflectSession.h"
#include "util/NetworkUtilityFunctions.h"
#include "syslog/SysLog.h"
#include <deque>
#include <vector>
#include <map>
#include <set>
#include <string>
#include <algorithm>
#include "vh.h"
using namespace muscle;

static vh::Rng g(1);
static uint32_t R(uint32_t n) { return g.R(n); }

static const uint64 NEVER = MUSCLE_TIME_NEVER;
static const int MAXDEPTH = 8;
enum { IDLE = 0, RECALC, SWEEP };

struct Node;
static std::vector<Node *> all;            // by id; NULL once destroyed
static std::vector<std::string> trace;
static bool caseBad, quiet;
static int phase;
static uint64 now;
static std::set<int> touchedTops, excused, protectedNodes;   // since the last recalculation / in this sweep
static long nAsks, nFires, nActionsInCallbacks, nGptActions;
static std::set<int> lateTops;   // top-level subtrees under an already finished root that a GetPulseTime() callback of a later root changed: repaired in the next cycle
static long gptActionsThisSweep; static int curRootIdx; static uint64 sweepFloor; static bool optStackInvalidate;
static std::map<int, std::pair<int, uint64> > scriptedGptInvalidate; static std::map<int, int> scriptedGptAttach;   // regress witnesses: node -> (target, new time) / node -> child to adopt

static std::string T(uint64 t) { return t == NEVER ? std::string("never") : vh::fmt("%llu", (unsigned long long)t); }
static void Op(const std::string & s) { trace.push_back(s); }
static void Fail(const std::string & key, const std::string & why)
{
   if (caseBad) return;
   caseBad = true;
   std::string d = why + vh::fmt(" | now=%s | last operations: ", T(now).c_str());
   size_t from = trace.size() > 70 ? trace.size() - 70 : 0;
   for (size_t i = from; i < trace.size(); i++) { d += trace[i]; d += "; "; }
   vh::viol(key, d);
}

struct Node : public PulseNode {
   int id; uint64 req;                                   // what GetPulseTime() answers
   // reference model
   bool isRoot, valid; uint64 lastReturned, sched; int parent; std::vector<int> kids;
   int asked, fired; bool deferredAsk, stackInvalidated;   // invalidated/attached during a recalculation sweep where it can only be asked in the next one
   Node(int i) : id(i), req(NEVER), isRoot(false), valid(false), lastReturned(NEVER), sched(NEVER), parent(-1), asked(0), fired(0), deferredAsk(false), stackInvalidated(false) {}
   virtual uint64 GetPulseTime(const PulseArgs & a);
   virtual void Pulse(const PulseArgs & a);
};
struct Mgr : public PulseNodeManager {
   void Recalc(PulseNode & r, uint64 t, uint64 & min) { CallGetPulseTimeAux(r, t, min); }
   void Sweep(PulseNode & r, uint64 t) { CallPulseAux(r, t); }
};

static std::vector<Node *> roots;
static Mgr mgr;

// ---- model helpers
static bool Attached(const Node * n) { int guard = 0; while (n && guard++ < 100000) { if (n->isRoot) return true; if (n->parent < 0) return false; n = all[n->parent]; } return false; }
static int Top(const Node * n) { int guard = 0; while (n && n->parent >= 0 && guard++ < 100000) { Node * p = all[n->parent]; if (p->isRoot) return n->id; n = p; } return -1; }   // the child of a root above n (or n), -1 for roots and detached nodes
static int Depth(const Node * n) { int d = 0; while (n->parent >= 0) { n = all[n->parent]; d++; } return d; }
static int Height(const Node * n) { int h = 0; for (size_t i = 0; i < n->kids.size(); i++) h = std::max(h, 1 + Height(all[n->kids[i]])); return h; }
static bool IsAncestorOrSelf(const Node * a, const Node * n) { while (n) { if (n == a) return true; n = n->parent >= 0 ? all[n->parent] : NULL; } return false; }
static void Subtree(const Node * n, std::vector<int> & out) { out.push_back(n->id); for (size_t i = 0; i < n->kids.size(); i++) Subtree(all[n->kids[i]], out); }
static void Touch(const Node * n) { int t = Top(n); if (t >= 0) touchedTops.insert(t); }
static void ExcuseSubtree(const Node * n) { std::vector<int> s; Subtree(n, s); excused.insert(s.begin(), s.end()); }

static void ModelDetach(Node * c)
{
   if (c->parent < 0) return;
   Node * p = all[c->parent];
   p->kids.erase(std::find(p->kids.begin(), p->kids.end(), c->id));
   c->parent = -1; c->valid = false;          // RemovePulseChild() invalidates the child; its descendants keep their state
}

// (5) the public observers agree with the model
static void Audit()
{
   if (caseBad) return;
   vh::stat("audits");
   for (size_t i = 0; i < all.size() && !caseBad; i++) {
      Node * n = all[i]; if (!n) continue;
      PulseNode * wantP = n->parent >= 0 ? all[n->parent] : NULL;
      if (n->GetPulseParent() != wantP) { Fail("audit|GetPulseParent", vh::fmt("node %d: GetPulseParent() is %s, model parent is %d", n->id, n->GetPulseParent() ? vh::fmt("node %d", static_cast<Node *>(n->GetPulseParent())->id).c_str() : "NULL", n->parent)); return; }
      if (wantP && !wantP->ContainsPulseChild(n)) { Fail("audit|ContainsPulseChild", vh::fmt("node %d is not contained in its parent %d", n->id, n->parent)); return; }
      Node * o = all[R((uint32)all.size())];
      if (o && o != wantP && o->ContainsPulseChild(n)) { Fail("audit|ContainsPulseChild", vh::fmt("node %d is reported as a child of node %d, model parent is %d", n->id, o->id, n->parent)); return; }
      if (n->GetScheduledPulseTime() != n->sched) { Fail("audit|GetScheduledPulseTime", vh::fmt("node %d: GetScheduledPulseTime() is %s, the node last answered %s", n->id, T(n->GetScheduledPulseTime()).c_str(), T(n->sched).c_str())); return; }
   }
}

// ---- operations (outside and inside callbacks)
static Node * Pick(bool allowRoot) { for (int t = 0; t < 12; t++) { Node * n = all[R((uint32)all.size())]; if (n && (allowRoot || !n->isRoot)) return n; } return NULL; }
static uint64 PickTime()
{
   switch (R(8)) {
   case 0: return NEVER;
   case 1: return now > 60 ? now - R(60) : 0;      // past
   case 2: return now;                              // due at once
   case 3: return now + 1;
   case 4: case 5: return now + R(12);              // near future, many ties
   default: return now + R(120);
   }
}
static void DoAttach(Node * c, Node * p, const char * where)
{
   Op(vh::fmt("%sattach %d under %d", where, c->id, p->id));
   if (c->parent >= 0) Touch(c);                   // the subtree it leaves
   ExcuseSubtree(c);
   p->PutPulseChild(c);
   if (c->parent >= 0) ModelDetach(c);             // PutPulseChild() on a node that has a parent detaches it first
   c->parent = p->id; p->kids.push_back(c->id);
   Touch(c);
   vh::stat(std::string(where) + "op_attach");
}
static void DoDetach(Node * c, const char * where)
{
   Node * p = all[c->parent];
   Op(vh::fmt("%sdetach %d from %d", where, c->id, p->id));
   Touch(c); ExcuseSubtree(c);
   p->RemovePulseChild(c);
   ModelDetach(c);
   vh::stat(std::string(where) + "op_detach");
}
static void DoDestroy(Node * d, const char * where)
{
   Op(vh::fmt("%sdestroy %d", where, d->id));
   Touch(d); ExcuseSubtree(d);
   std::vector<int> kids = d->kids;
   for (size_t i = 0; i < kids.size(); i++) ModelDetach(all[kids[i]]);      // ~PulseNode: ClearPulseChildren()
   ModelDetach(d);
   all[d->id] = NULL;
   delete d;
   vh::stat(std::string(where) + "op_destroy");
}
static void Action(Node * self /* NULL outside callbacks */)
{
   const char * where = self ? "cb:" : "";
   const uint32 o = R(100);
   if (o < 22) {          // invalidate another node (or any node), with a new answer
      Node * b = Pick(true); if (!b) return;
      const bool clear = R(2) != 0; if (R(4)) b->req = PickTime();
      Op(vh::fmt("%sinvalidate %d clear=%d req=%s", where, b->id, (int)clear, T(b->req).c_str()));
      if (b->valid || b == self) Touch(b);          // (inside its own Pulse() a node still counts as valid for the scheduler)
      b->InvalidatePulseTime(clear);
      b->valid = false; if (clear) b->sched = NEVER;
      vh::stat(std::string(where) + (clear ? "op_invalidate_clear" : "op_invalidate_keep"));
   }
   else if (o < 30 && self) {   // invalidate self from inside the own callback
      const bool clear = R(2) != 0; self->req = PickTime();
      Op(vh::fmt("cb:invalidate self %d clear=%d req=%s", self->id, (int)clear, T(self->req).c_str()));
      self->InvalidatePulseTime(clear);
      Touch(self);
      self->valid = false; if (clear) self->sched = NEVER;
      vh::stat("cb:op_invalidate_self");
   }
   else if (o < 42) {     // re-time without telling the scheduler: has no effect until the node is asked again
      Node * b = (self && R(2)) ? self : Pick(true); if (!b) return;
      b->req = PickTime(); Op(vh::fmt("%sretime %d req=%s", where, b->id, T(b->req).c_str()));
      vh::stat(std::string(where) + "op_retime");
   }
   else if (o < 62) {     // attach / move a subtree
      Node * c = Pick(false), * p = Pick(true); if (!c || !p || c == p || IsAncestorOrSelf(c, p)) return;
      if (Depth(p) + 1 + Height(c) > MAXDEPTH) return;
      if (self && IsAncestorOrSelf(c, self)) { if (R(3)) return; vh::stat("cb:op_moved_a_node_of_the_callback_stack"); }
      DoAttach(c, p, where);
   }
   else if (o < 74) {     // detach
      Node * c = Pick(false); if (!c || c->parent < 0) return;
      if (self && IsAncestorOrSelf(c, self)) { if (R(3)) return; vh::stat("cb:op_detached_a_node_of_the_callback_stack"); }
      DoDetach(c, where);
   }
   else if (o < 77) {     // ClearPulseChildren
      Node * p = Pick(true); if (!p || p->kids.empty() || p->kids.size() > 6) return;
      if (self) for (size_t i = 0; i < p->kids.size(); i++) if (IsAncestorOrSelf(all[p->kids[i]], self)) return;
      Op(vh::fmt("%sclear children of %d", where, p->id));
      std::vector<int> kids = p->kids;
      for (size_t i = 0; i < kids.size(); i++) { Touch(all[kids[i]]); ExcuseSubtree(all[kids[i]]); }
      p->ClearPulseChildren();
      for (size_t i = 0; i < kids.size(); i++) ModelDetach(all[kids[i]]);
      vh::stat(std::string(where) + "op_clear_children");
   }
   else if (o < 84) {     // destroy a node that is not on the callback stack
      Node * d = Pick(false); if (!d) return;
      if (self && (d == self || protectedNodes.count(d->id))) return;
      if (phase == SWEEP && protectedNodes.count(d->id)) return;
      DoDestroy(d, where);
   }
   else if (o < 92 && all.size() < 260) {   // a new node
      Node * p = Pick(true); if (!p || Depth(p) + 1 > MAXDEPTH) return;
      Node * n = new Node((int)all.size()); all.push_back(n); n->req = PickTime();
      Op(vh::fmt("%snew node %d req=%s", where, n->id, T(n->req).c_str()));
      DoAttach(n, p, where);
   }
   else if (self) {       // the usual thing: decide the next time inside the own callback (asked again right after Pulse())
      self->req = R(3) ? now + 1 + R(25) : PickTime(); Op(vh::fmt("cb:next time of %d = %s", self->id, T(self->req).c_str()));
      vh::stat("cb:op_next_time");
   }
}

// scripted operations from inside GetPulseTime() (the recalculation sweep is running: this node has just been marked valid, its needy
// children are drained after it returns).  Not generated: operations on this node itself or on its ancestors (their own question has
// already been asked in this sweep; --opt gpt_stack_invalidate=1 generates them under their own key), moving attached subtrees, destroying.
static int RootIndex(const Node * n) { while (n->parent >= 0) n = all[n->parent]; for (size_t r = 0; r < roots.size(); r++) if (roots[r] == n) return (int)r; return -1; }
static void MarkDeferredIfRootDone(Node * t) { if (Attached(t)) { const int ri = RootIndex(t); if (ri >= 0 && ri < curRootIdx) t->deferredAsk = true; } }
static void GptAction(Node * self)
{
   gptActionsThisSweep++; nGptActions++;
   const uint32 o = R(100);
   if (o < 38) {
      Node * t = NULL; const char * rel = "other";
      const uint32 w = R(10);
      if (w < 4 && !self->kids.empty()) { t = all[self->kids[R((uint32)self->kids.size())]]; rel = "own_child"; if (w < 2 && !t->kids.empty()) { t = all[t->kids[R((uint32)t->kids.size())]]; rel = "own_grandchild"; } }
      else if (w < 7 && self->parent >= 0) { Node * p = all[self->parent]; t = all[p->kids[R((uint32)p->kids.size())]]; rel = "sibling"; }
      else t = Pick(true);
      if (!t) return;
      const bool onStack = IsAncestorOrSelf(t, self);
      if (onStack) { if (!optStackInvalidate) { vh::stat("unspecified_not_generated_invalidate_self_or_ancestor_inside_getpulsetime"); return; } rel = (t == self) ? "self" : "ancestor"; }
      const bool clear = R(2) != 0; if (R(4)) t->req = PickTime();
      Op(vh::fmt("gpt:%d invalidates %s %d clear=%d req=%s", self->id, rel, t->id, (int)clear, T(t->req).c_str()));
      t->InvalidatePulseTime(clear); t->valid = false; if (clear) t->sched = NEVER;
      if (onStack) { t->deferredAsk = true; t->stackInvalidated = !t->isRoot; } else MarkDeferredIfRootDone(t);
      vh::stat(std::string("actions_inside_getpulsetime_invalidate_") + rel);
   }
   else if (o < 62) {
      Node * c = NULL; Node * p = R(2) ? self : Pick(true); if (!p) return;
      if (R(10) < 7 && all.size() < 260) { c = new Node((int)all.size()); all.push_back(c); c->req = PickTime(); Op(vh::fmt("gpt:new node %d req=%s", c->id, T(c->req).c_str())); }
      else { c = Pick(false); if (!c || c->parent >= 0 || !c->kids.empty()) return; }     // a detached node without children
      if (c == p || Depth(p) + 1 > MAXDEPTH) return;
      DoAttach(c, p, "gpt:"); MarkDeferredIfRootDone(c);
      vh::stat(p == self ? "actions_inside_getpulsetime_attach_under_self" : "actions_inside_getpulsetime_attach_elsewhere");
      if (c->req <= now) vh::stat("actions_inside_getpulsetime_attach_due_child");
   }
   else if (o < 76) {
      Node * c = (R(2) && !self->kids.empty()) ? all[self->kids[R((uint32)self->kids.size())]] : Pick(false);
      if (!c || c->parent < 0 || IsAncestorOrSelf(c, self)) return;
      const bool own = c->parent == self->id;
      { const int ri = Attached(c) ? RootIndex(c) : -1; if (ri >= 0 && ri < curRootIdx) { const int tp = Top(c); if (tp >= 0) lateTops.insert(tp); vh::stat("actions_inside_getpulsetime_under_an_already_finished_root"); } }
      DoDetach(c, "gpt:");
      vh::stat(own ? "actions_inside_getpulsetime_detach_own_child" : "actions_inside_getpulsetime_detach_other");
   }
   else { Node * b = Pick(true); if (!b) return; b->req = PickTime(); Op(vh::fmt("gpt:retime %d req=%s", b->id, T(b->req).c_str())); vh::stat("actions_inside_getpulsetime_retime"); }
}

uint64 Node::GetPulseTime(const PulseArgs & a)
{
   nAsks++; asked++;
   Op(vh::fmt("ask %d -> %s", id, T(req).c_str()));
   if (phase != RECALC) Fail("asked|outside_recalculation", vh::fmt("GetPulseTime() of node %d called outside a recalculation sweep", id));
   else if (!Attached(this)) Fail("asked|detached_node", vh::fmt("GetPulseTime() of node %d called although it is not attached to a root", id));
   else if (a.GetCallbackTime() != now) Fail("asked|callback_time_arg", vh::fmt("node %d: GetCallbackTime() %s", id, T(a.GetCallbackTime()).c_str()));
   else if (a.GetScheduledTime() != sched) Fail("asked|scheduled_time_arg", vh::fmt("node %d: GetScheduledTime() is %s, documented: the previous answer (%s)", id, T(a.GetScheduledTime()).c_str(), T(sched).c_str()));
   if (valid) vh::stat("unspecified_valid_node_asked_again");
   valid = true; lastReturned = sched = req; deferredAsk = stackInvalidated = false;
   if (req < sweepFloor) sweepFloor = req;
   const uint64 answer = req;
   if (scriptedGptInvalidate.count(id)) { std::pair<int, uint64> sc = scriptedGptInvalidate[id]; scriptedGptInvalidate.erase(id); Node * t = all[sc.first]; Op(vh::fmt("gpt:%d invalidates %d req=%s", id, t->id, T(sc.second).c_str())); t->req = sc.second; t->InvalidatePulseTime(); t->valid = false; t->sched = NEVER; gptActionsThisSweep++; }
   if (scriptedGptAttach.count(id)) { Node * c = all[scriptedGptAttach[id]]; scriptedGptAttach.erase(id); Op(vh::fmt("gpt:%d adopts %d", id, c->id)); PutPulseChild(c); c->parent = id; kids.push_back(c->id); gptActionsThisSweep++; }
   if (!quiet && !caseBad && phase == RECALC && R(8) == 0) GptAction(this);
   return answer;
}

void Node::Pulse(const PulseArgs & a)
{
   nFires++;
   Op(vh::fmt("FIRE %d (asked for %s)", id, T(lastReturned).c_str()));
   const bool att = Attached(this);
   if (phase != SWEEP) Fail("fired|outside_pulse_sweep", vh::fmt("Pulse() of node %d called outside a pulse sweep", id));
   else if (fired > 0) Fail("fired|twice_in_one_sweep", vh::fmt("node %d fired again in the same sweep", id));
   else if (!att && !excused.count(id)) Fail("fired|not_attached", vh::fmt("node %d fired although it is not attached to a root", id));
   else if (!valid) Fail("fired|not_valid", vh::fmt("node %d fired although its time was invalidated and it has not been asked since", id));
   else if (lastReturned > now) Fail("fired|before_its_time", vh::fmt("node %d fired at %s, it asked for %s", id, T(now).c_str(), T(lastReturned).c_str()));
   else if (a.GetScheduledTime() != lastReturned) Fail("fired|scheduled_time_arg", vh::fmt("node %d: GetScheduledTime() is %s, the node asked for %s", id, T(a.GetScheduledTime()).c_str(), T(lastReturned).c_str()));
   else if (a.GetCallbackTime() != now) Fail("fired|callback_time_arg", vh::fmt("node %d: GetCallbackTime() is %s", id, T(a.GetCallbackTime()).c_str()));
   if (!att) vh::stat("unspecified_fired_after_detach_in_same_sweep");
   if (lastReturned == now) vh::stat("fired_exactly_at_their_time");
   fired++; valid = false;
   for (const Node * n = this; n; n = n->parent >= 0 ? all[n->parent] : NULL) protectedNodes.insert(n->id);   // PulseAux() frames that may be active
   if (!quiet && !caseBad) {
      const int na = R(3) == 0 ? 0 : 1 + (int)R(2);
      for (int i = 0; i < na && !caseBad; i++) { nActionsInCallbacks++; Action(this); }
   }
}

// ---- one cycle

static void Recalculate()
{
   std::set<int> wasInvalid; sweepFloor = NEVER; gptActionsThisSweep = 0; lateTops.clear();
   for (size_t i = 0; i < all.size(); i++) if (all[i]) { Node * n = all[i]; n->asked = 0; n->deferredAsk = false; if (Attached(n)) { if (!n->valid) wasInvalid.insert((int)i); else if (n->lastReturned < sweepFloor) sweepFloor = n->lastReturned; } }
   Op(vh::fmt("RECALC at %s", T(now).c_str()));
   phase = RECALC; uint64 min = NEVER;
   for (size_t r = 0; r < roots.size(); r++) { curRootIdx = (int)r; mgr.Recalc(*roots[r], now, min); }
   phase = IDLE; vh::stat("recalculations"); if (gptActionsThisSweep) vh::stat("recalculations_with_actions_inside_getpulsetime");
   if (caseBad) return;
   uint64 want = NEVER;
   for (size_t i = 0; i < all.size(); i++) {
      Node * n = all[i]; if (!n || !Attached(n)) continue;
      const bool inv = wasInvalid.count((int)i) > 0;
      if (inv && gptActionsThisSweep == 0 && n->asked != 1) { Fail(n->asked ? "recalc|asked_more_than_once" : "recalc|invalid_node_not_asked", vh::fmt("node %d was attached and invalid, GetPulseTime() was called %d times", n->id, n->asked)); return; }
      if (!n->valid) {
         // invalidated / attached during this sweep where the sweep could not come back to it (its root was already done): asked in the next cycle
         if (n->deferredAsk) { vh::stat("asks_deferred_to_the_next_cycle"); continue; }
         Fail(n->stackInvalidated ? "recalc|node_invalidated_during_its_own_recalculation_is_never_asked_again" : "recalc|invalid_node_not_asked", vh::fmt("node %d is attached and still invalid after the recalculation sweep (asked %d times in it)", n->id, n->asked)); return;
      }
      if (n->lastReturned < want) want = n->lastReturned;
   }
   if (min > want) { Fail("recalc|minimum_too_late", vh::fmt("reported minimum %s, minimum over the attached nodes %s", T(min).c_str(), T(want).c_str())); return; }
   if (min < want) {
      // a node that was asked (or counted through an ancestor) before a GetPulseTime() callback of the same sweep re-timed or detached it has
      // already entered the running minimum: a wake-up that is merely too early is tolerated then, never one below every answer seen
      if (gptActionsThisSweep && min >= sweepFloor) vh::stat("unspecified_minimum_early_after_actions_inside_getpulsetime");
      else { Fail("recalc|minimum_too_early", vh::fmt("reported minimum %s, minimum over the attached nodes %s", T(min).c_str(), T(want).c_str())); return; }
   }
   Op(vh::fmt("min=%s", T(min).c_str()));
   touchedTops.clear(); excused.clear(); touchedTops.insert(lateTops.begin(), lateTops.end());
   for (size_t i = 0; i < all.size(); i++) if (all[i] && !all[i]->valid && Attached(all[i])) Touch(all[i]);   // its ancestors still wait for recalculation: that subtree may be deferred
   Audit();
}

// returns the number of deferred (due, not fired, excused) nodes
static long PulseSweep()
{
   std::map<int, int> dueAtStart;    // id -> top-level subtree at sweep start
   for (size_t i = 0; i < all.size(); i++) if (all[i]) { all[i]->fired = 0; if (all[i]->valid && all[i]->lastReturned <= now && Attached(all[i])) dueAtStart[(int)i] = Top(all[i]); }
   Op(vh::fmt("%sPULSE at %s (%zu due)", quiet ? "QUIET " : "", T(now).c_str(), dueAtStart.size()));
   protectedNodes.clear();
   phase = SWEEP;
   for (size_t r = 0; r < roots.size(); r++) mgr.Sweep(*roots[r], now);
   phase = IDLE; vh::stat("pulse_sweeps"); if (quiet) vh::stat("quiet_sweeps");
   protectedNodes.clear();
   if (caseBad) return 0;
   long deferred = 0;
   for (std::map<int, int>::const_iterator it = dueAtStart.begin(); it != dueAtStart.end(); ++it) {
      Node * n = all[it->first]; if (!n || n->fired) continue;
      if (!n->valid || !Attached(n)) continue;                      // invalidated, detached itself: nothing is owed in this sweep
      const int topNow = Top(n);
      const bool ex = excused.count(n->id) || (it->second >= 0 && touchedTops.count(it->second)) || (topNow >= 0 && touchedTops.count(topNow));
      if (ex && !quiet) { deferred++; continue; }
      Fail(quiet ? "not_fired|due_node_in_quiet_sweep" : "not_fired|due_node_in_untouched_subtree", vh::fmt("node %d is attached, valid and due (asked for %s) and did not fire", n->id, T(n->lastReturned).c_str()));
      return 0;
   }
   if (deferred) vh::stat("deferred_nodes", deferred);
   Audit();
   return deferred;
}

static void Cycle()
{
   quiet = false;
   Recalculate(); if (caseBad) return;
   uint64 min = NEVER; for (size_t i = 0; i < all.size(); i++) if (all[i] && Attached(all[i]) && all[i]->lastReturned < min) min = all[i]->lastReturned;
   if (min != NEVER && R(4)) now = std::max(now, min) + (R(2) ? 0 : R(3) * R(30)); else now += R(20);
   if (R(3) == 0) { const int n = 1 + (int)R(3); for (int i = 0; i < n && !caseBad; i++) { Action(NULL); Audit(); } vh::stat("cycles_with_operations_between_recalculation_and_pulse"); }
   if (caseBad) return;
   const long deferred = PulseSweep(); if (caseBad) return;
   if (deferred || R(5) == 0) {       // (3) no due node is lost
      quiet = true; if (deferred) vh::stat("quiet_cycles_after_deferral");
      Recalculate(); if (caseBad) return;
      (void)PulseSweep();
      quiet = false;
   }
}

static void RunCase(long k, uint64_t cs)
{
   g = vh::Rng(cs); trace.clear(); caseBad = false; quiet = false; phase = IDLE; now = 1000; touchedTops.clear(); excused.clear(); protectedNodes.clear();
   nAsks = nFires = nActionsInCallbacks = nGptActions = 0; gptActionsThisSweep = 0; curRootIdx = 0; sweepFloor = NEVER; scriptedGptInvalidate.clear(); scriptedGptAttach.clear(); all.clear(); roots.clear();
   const uint32 N = R(3) == 0 ? 1 + R(8) : (R(2) ? 1 + R(40) : 1 + R(200));
   const uint32 nr = std::min<uint32>(N, R(4) == 0 ? 1 + R(3) : 1);
   int maxDepth = 0;
   for (uint32 i = 0; i < N; i++) {
      Node * n = new Node((int)i); all.push_back(n); n->req = PickTime();
      if (i < nr) { n->isRoot = true; roots.push_back(n); continue; }
      if (R(10) == 0) continue;                                  // stays detached for now
      Node * p = all[R(i)];
      if (R(3) == 0) { int guard = 0; while (Depth(p) + 1 < MAXDEPTH && !p->kids.empty() && guard++ < 8) p = all[p->kids[R((uint32)p->kids.size())]]; }   // grow deep chains too
      if (Depth(p) + 1 > MAXDEPTH) continue;
      p->PutPulseChild(n); n->parent = p->id; p->kids.push_back(n->id);
      maxDepth = std::max(maxDepth, Depth(n));
   }
   Op(vh::fmt("tree of %u nodes, %u roots, depth %d", N, nr, maxDepth));
   Audit();
   const int steps = 60 + (int)R(90);
   for (int s = 0; s < steps && !caseBad; s++) {
      if (R(100) < 40) { Action(NULL); Audit(); } else Cycle();
   }
   if (!caseBad) { quiet = true; Recalculate(); if (!caseBad) (void)PulseSweep(); quiet = false; }
   size_t live = 0; for (size_t i = 0; i < all.size(); i++) if (all[i]) live++;
   vh::stat("asks", nAsks); vh::stat("fires", nFires); vh::stat("actions_inside_callbacks", nActionsInCallbacks); vh::stat("actions_inside_getpulsetime", nGptActions);
   vh::statmax("max_nodes", (long)all.size()); vh::statmax("max_depth", maxDepth);
   if (N >= 100) vh::stat("cases_with_100_or_more_nodes"); if (N == 1) vh::stat("cases_with_a_single_node"); if (nr > 1) vh::stat("cases_with_several_roots"); if (maxDepth >= 7) vh::stat("cases_depth_7_or_8");
   vh::distinct(vh::fnv(&cs, sizeof(cs)), nFires >= 10 && N >= 3 && nActionsInCallbacks >= 3);
   if (vh::want_sample()) { std::string s = vh::fmt("case %ld: %u nodes, %ld asks, %ld fires, %ld in-callback actions: ", k, N, nAsks, nFires, nActionsInCallbacks); for (size_t i = 0; i < trace.size() && i < 30; i++) { s += trace[i]; s += "; "; } vh::sample(s + "..."); }
   // destruction in a random order (no ownership: ~PulseNode unlinks)
   std::vector<Node *> rest; for (size_t i = 0; i < all.size(); i++) if (all[i]) rest.push_back(all[i]);
   for (size_t i = rest.size(); i > 1; i--) std::swap(rest[i - 1], rest[R((uint32)i)]);
   for (size_t i = 0; i < rest.size(); i++) { all[rest[i]->id] = NULL; delete rest[i]; }
   all.clear(); roots.clear();
}

// ---- documentation examples / fixed witnesses
static void Regress()
{
   g = vh::Rng(20);
   {  // sorted scheduled list: three children asking for 30, 10, 20 -> minimum 10, pulse at 20 fires exactly the two due ones with their own times
      vh::begin_case(0); trace.clear(); caseBad = false; all.clear(); roots.clear(); now = 0; quiet = true; touchedTops.clear(); excused.clear();
      for (int i = 0; i < 4; i++) all.push_back(new Node(i));
      all[0]->isRoot = true; roots.push_back(all[0]);
      const uint64 t[4] = {NEVER, 30, 10, 20};
      for (int i = 0; i < 4; i++) { all[i]->req = t[i]; if (i) { all[0]->PutPulseChild(all[i]); all[i]->parent = 0; all[0]->kids.push_back(i); } }
      Recalculate();
      now = 20; for (int i = 0; i < 4; i++) all[i]->req = NEVER;
      if (!caseBad) (void)PulseSweep();
      if (!caseBad && (all[1]->fired || !all[2]->fired || !all[3]->fired)) Fail("regress|three_children", "expected exactly the children asking for 10 and 20 to fire at 20");
      // doc: "Immediately after our Pulse() method has been called" GetPulseTime() is called again; args.GetScheduledTime() = previous answer
      if (!caseBad) { Recalculate(); if (!caseBad && (all[2]->asked != 1 || all[3]->asked != 1 || all[1]->asked != 0)) Fail("regress|asked_after_pulse", "fired nodes must be asked again, the others not"); }
      // doc: InvalidatePulseTime(true) -> args.GetScheduledTime() is MUSCLE_TIME_NEVER at the next call; (false) -> left as is   (checked by the model in GetPulseTime)
      if (!caseBad) { all[1]->InvalidatePulseTime(false); all[1]->valid = false; all[2]->InvalidatePulseTime(true); all[2]->valid = false; all[2]->sched = NEVER; all[1]->req = 40; Recalculate(); }
      // a node that answered never and is invalidated with a new time is asked again and fires
      if (!caseBad) { all[3]->req = 25; all[3]->InvalidatePulseTime(); all[3]->valid = false; all[3]->sched = NEVER; Recalculate(); now = 25; if (!caseBad) (void)PulseSweep(); if (!caseBad && !all[3]->fired) Fail("regress|unscheduled_node_rescheduled", "node 3 did not fire at 25"); }
      // detaching the earliest child: the minimum follows
      if (!caseBad) { all[3]->req = NEVER; Recalculate(); }
      if (!caseBad) { all[1]->req = 26; all[1]->InvalidatePulseTime(); all[1]->valid = false; all[1]->sched = NEVER; Recalculate(); all[0]->RemovePulseChild(all[1]); ModelDetach(all[1]); Recalculate(); }
      for (int i = 3; i >= 0; i--) { delete all[i]; } all.clear(); roots.clear();
      vh::distinct(1);
   }
   {  // seeded scenario (GetPulseTimeAux drained the needy children before asking the node itself): root -> group -> kid; from inside its own
      // GetPulseTime() the group (A) re-times its kid from 100 to 50 and invalidates it, (B) adopts a new child wanting 300
      vh::begin_case(1); trace.clear(); caseBad = false; all.clear(); roots.clear(); now = 0; quiet = true; touchedTops.clear(); excused.clear(); scriptedGptInvalidate.clear(); scriptedGptAttach.clear();
      for (int i = 0; i < 4; i++) all.push_back(new Node(i));
      all[0]->isRoot = true; roots.push_back(all[0]);
      all[0]->PutPulseChild(all[1]); all[1]->parent = 0; all[0]->kids.push_back(1); all[1]->PutPulseChild(all[2]); all[2]->parent = 1; all[1]->kids.push_back(2);
      all[0]->req = NEVER; all[1]->req = 900; all[2]->req = 100; all[3]->req = 300;
      Recalculate();
      if (!caseBad) { scriptedGptInvalidate[1] = std::make_pair(2, (uint64)50); all[1]->InvalidatePulseTime(); all[1]->valid = false; all[1]->sched = NEVER; Recalculate(); }
      if (!caseBad) { now = 50; all[2]->req = NEVER; (void)PulseSweep(); if (!caseBad && !all[2]->fired) Fail("regress|child_invalidated_inside_parents_GetPulseTime", "the kid did not fire at 50"); }
      if (!caseBad) { scriptedGptAttach[1] = 3; all[1]->InvalidatePulseTime(); all[1]->valid = false; all[1]->sched = NEVER; Recalculate(); }
      if (!caseBad) { now = 300; (void)PulseSweep(); if (!caseBad && !all[3]->fired) Fail("regress|child_attached_inside_parents_GetPulseTime", "the adopted child did not fire at 300"); }
      for (int i = 3; i >= 0; i--) { delete all[i]; } all.clear(); roots.clear(); quiet = false;
      vh::distinct(2);
   }
}


// ======================================================================== mode=server
namespace srv {
enum { C_SERVER = 0, C_FACTORY, C_SESSION, C_CHILD, C_POLICY };
enum { S_DETACHED = 0, S_ATTACHED = 1, S_LIMBO = 2, S_GONE = 3 };     // limbo: EndSession()/RemoveAcceptFactory() called, not judged any more
static const char * clsName[] = {"server", "factory", "session", "child", "policy"};
struct Inst { int id, cls; PulseNode * node; uint64 req; bool valid; uint64 lastReturned, sched; int state, parent; bool ready; long fires, asks; int unserved; int pol[2]; bool begun; std::vector<int> holders; };   // ready: factory accepts / session is ready for input; pol: a session's input/output policy; holders: a policy's sessions
static std::deque<Inst> insts;      // (references stay valid while the deque grows)
static bool quietMode, snapshotDone, inLoop, minCheckable, outputQueued; static uint64 snapshotMin, cycleBeganAt; static long snapshots;

static int Status(int i) { for (int guard = 0; guard < 1000; guard++) { const Inst & x = insts[i];
   if (x.cls == C_POLICY) { if (x.holders.empty()) return S_DETACHED; for (size_t h = 0; h < x.holders.size(); h++) if (insts[x.holders[h]].state == S_ATTACHED) return S_ATTACHED; return S_LIMBO; }   // asked and pulsed while a session of the server holds it
   if (x.state == S_LIMBO) return S_LIMBO; if (x.state == S_GONE) return S_DETACHED; if (x.cls != C_CHILD) return x.state; if (x.parent < 0 || x.state != S_ATTACHED) return S_DETACHED; i = x.parent; } return S_DETACHED; }
static std::string Name(const Inst & x) { return vh::fmt("%s#%d", clsName[x.cls], x.id); }
static uint64 PickReq(uint64 t) { switch (R(7)) { case 0: return NEVER; case 1: return t > 3000 ? t - R(3000) : 0; case 2: return t + R(300); default: return t + R(30000); } }

// (c) the moment of the wait: everything attached has been asked; the wake-up time is the minimum of the answers
static void Snapshot()
{
   snapshotDone = true; snapshots++; snapshotMin = NEVER;
   for (size_t i = 0; i < insts.size() && !caseBad; i++) {
      const Inst & x = insts[i]; if (Status((int)i) != S_ATTACHED) continue;
      if (!x.valid) { Fail(std::string("server|node_not_asked_before_wait|") + clsName[x.cls], vh::fmt("%s is attached%s and its GetPulseTime() was not called before the server waited (wants %s)", Name(x).c_str(), x.cls == C_FACTORY ? (x.ready ? ", accepting" : ", NOT ready to accept sessions") : "", T(x.req).c_str())); return; }
      if (x.lastReturned < snapshotMin) snapshotMin = x.lastReturned;
      if (x.cls == C_FACTORY && !x.ready && x.lastReturned != NEVER) vh::stat("factory_nodes_not_ready_wanting_pulse");
      if (x.cls == C_POLICY && !x.begun && x.lastReturned != NEVER) vh::stat("policy_nodes_without_ready_holder_wanting_pulse");
   }
}
static void SAction(Inst * self);
static uint64 Ask(Inst & x, uint64 cb, uint64 sa)
{
   x.asks++; now = GetRunTime64();
   Op(vh::fmt("ask %s -> %s", Name(x).c_str(), T(x.req).c_str()));
   const int st = Status(x.id);
   if (!inLoop) Fail("server|asked_outside_event_loop", Name(x));
   else if (st == S_DETACHED) Fail("server|asked_detached_node", Name(x));
   else if (cb > now) Fail("server|asked|callback_time_in_the_future", Name(x));
   else if (sa != x.sched) Fail("server|asked|scheduled_time_arg", vh::fmt("%s: GetScheduledTime() is %s, documented: the previous answer (%s)", Name(x).c_str(), T(sa).c_str(), T(x.sched).c_str()));
   vh::stat(std::string("asks_") + clsName[x.cls]);
   x.valid = true; x.lastReturned = x.sched = x.req;
   return x.req;
}
static void Fire(Inst & x, uint64 cb, uint64 sa)
{
   if (!snapshotDone) Snapshot();
   x.fires++; now = GetRunTime64();
   Op(vh::fmt("FIRE %s (asked for %s, callback time %s)", Name(x).c_str(), T(x.lastReturned).c_str(), T(cb).c_str()));
   const int st = Status(x.id);
   if (!inLoop) Fail("server|fired_outside_event_loop", Name(x));
   else if (st == S_DETACHED) Fail("server|fired|detached_node", Name(x));
   else if (!x.valid) Fail("server|fired|without_a_new_answer", vh::fmt("%s fired although it has not been asked since it last fired / was invalidated", Name(x).c_str()));
   else if (x.lastReturned > cb || x.lastReturned > now) Fail("server|fired|before_its_time", vh::fmt("%s asked for %s, fired with callback time %s at clock %s", Name(x).c_str(), T(x.lastReturned).c_str(), T(cb).c_str(), T(now).c_str()));
   else if (sa != x.lastReturned) Fail("server|fired|scheduled_time_arg", vh::fmt("%s: GetScheduledTime() is %s, it asked for %s", Name(x).c_str(), T(sa).c_str(), T(x.lastReturned).c_str()));
   else if (cb > now) Fail("server|fired|callback_time_in_the_future", Name(x));
   vh::stat(std::string("fires_") + clsName[x.cls]);
   if (x.cls == C_FACTORY && !x.ready) vh::stat("fires_factory_while_not_ready");
   x.valid = false;
   if (quietMode) { x.req = NEVER; return; }
   x.req = R(10) == 0 ? PickReq(now) : (R(5) == 0 ? NEVER : now + 200 + R(30000));
   const int na = R(2) ? 0 : 1 + (int)R(2);
   for (int i = 0; i < na && !caseBad; i++) SAction(&x);
}

class Srv : public ReflectServer { public: int inst;
   virtual uint64 GetPulseTime(const PulseArgs & a) { if (ReflectServer::GetPulseTime(a) != NEVER) minCheckable = false; return Ask(insts[inst], a.GetCallbackTime(), a.GetScheduledTime()); }
   virtual void Pulse(const PulseArgs & a) { ReflectServer::Pulse(a); Fire(insts[inst], a.GetCallbackTime(), a.GetScheduledTime()); }
   virtual void EventLoopCycleBegins() { snapshotDone = false; cycleBeganAt = GetRunTime64(); for (size_t i = 0; i < insts.size(); i++) insts[i].begun = false; vh::stat("server_cycles"); }
   virtual void EventLoopCycleEnds() {
      if (!snapshotDone && !caseBad) Snapshot();
      // spin guard in logical terms: a root-level node (no deferral exists for those) that has been asked, is due since before this cycle began and is
      // still waiting after the cycle's pulses, three cycles in a row
      for (size_t i = 0; i < insts.size() && !caseBad; i++) { Inst & x = insts[i];
         if (x.cls != C_CHILD && Status((int)i) == S_ATTACHED && x.valid && x.lastReturned <= cycleBeganAt) { if (++x.unserved >= 3) Fail(std::string("server|due_node_not_served_in_3_consecutive_cycles|") + clsName[x.cls], vh::fmt("%s asked for %s and was not pulsed in three event loop cycles that began after that time", Name(x).c_str(), T(x.lastReturned).c_str())); }
         else x.unserved = 0; } } };
class Fac : public ReflectSessionFactory { public: int inst;
   virtual AbstractReflectSessionRef CreateSession(const String &, const IPAddressAndPort &) { return AbstractReflectSessionRef(); }
   virtual bool IsReadyToAcceptSessions() const { return insts[inst].ready; }
   virtual uint64 GetPulseTime(const PulseArgs & a) { if (ReflectSessionFactory::GetPulseTime(a) != NEVER) minCheckable = false; return Ask(insts[inst], a.GetCallbackTime(), a.GetScheduledTime()); }
   virtual void Pulse(const PulseArgs & a) { ReflectSessionFactory::Pulse(a); Fire(insts[inst], a.GetCallbackTime(), a.GetScheduledTime()); } };
class Ses : public DumbReflectSession { public: int inst;
   virtual bool IsReadyForInput() const { return insts[inst].ready && DumbReflectSession::IsReadyForInput(); }
   virtual uint64 GetPulseTime(const PulseArgs & a) { if (DumbReflectSession::GetPulseTime(a) != NEVER) minCheckable = false; return Ask(insts[inst], a.GetCallbackTime(), a.GetScheduledTime()); }
   virtual void Pulse(const PulseArgs & a) { DumbReflectSession::Pulse(a); Fire(insts[inst], a.GetCallbackTime(), a.GetScheduledTime()); } };
class Pol : public AbstractSessionIOPolicy { public: int inst;
   virtual void PolicyHolderAdded(const PolicyHolder &) {} virtual void PolicyHolderRemoved(const PolicyHolder &) {}
   virtual void BeginIO(uint64) { insts[inst].begun = true; } virtual void EndIO(uint64) {}
   virtual bool OkayToTransfer(const PolicyHolder &) { return true; } virtual uint32 GetMaxTransferChunkSize(const PolicyHolder &) { return MUSCLE_NO_LIMIT; } virtual void BytesTransferred(const PolicyHolder &, uint32) {}
   virtual uint64 GetPulseTime(const PulseArgs & a) { if (AbstractSessionIOPolicy::GetPulseTime(a) != NEVER) minCheckable = false; return Ask(insts[inst], a.GetCallbackTime(), a.GetScheduledTime()); }
   virtual void Pulse(const PulseArgs & a) { AbstractSessionIOPolicy::Pulse(a); Fire(insts[inst], a.GetCallbackTime(), a.GetScheduledTime()); } };
class Kid : public PulseNode { public: int inst;
   virtual uint64 GetPulseTime(const PulseArgs & a) { return Ask(insts[inst], a.GetCallbackTime(), a.GetScheduledTime()); }
   virtual void Pulse(const PulseArgs & a) { Fire(insts[inst], a.GetCallbackTime(), a.GetScheduledTime()); } };

static Inst & NewInst(int cls, PulseNode * n) { Inst x; x.id = (int)insts.size(); x.cls = cls; x.node = n; x.req = PickReq(GetRunTime64()); x.valid = false; x.lastReturned = x.sched = NEVER; x.state = S_DETACHED; x.parent = -1; x.ready = true; x.fires = x.asks = 0; x.unserved = 0; x.pol[0] = x.pol[1] = -1; x.begun = false; insts.push_back(x); return insts.back(); }
static bool InChain(int anc, int i) { for (int guard = 0; i >= 0 && guard < 1000; guard++) { if (i == anc) return true; i = insts[i].cls == C_CHILD ? insts[i].parent : -1; } return false; }
static int DepthOf(int i) { int d = 0; while (insts[i].cls == C_CHILD && insts[i].parent >= 0 && d < 100) { i = insts[i].parent; d++; } return d; }
static Inst * PickInst(int cls /* -1 any */) { for (int t = 0; t < 16; t++) { Inst & x = insts[R((uint32)insts.size())]; if (x.state != S_GONE && (cls < 0 || x.cls == cls)) return &x; } return NULL; }
static void DetachKid(Inst & k, const char * where) { Op(vh::fmt("%sdetach %s from %d", where, Name(k).c_str(), k.parent)); insts[k.parent].node->RemovePulseChild(k.node); k.parent = -1; k.state = S_DETACHED; k.valid = false; vh::stat(std::string(where) + "srv_op_detach_child"); }
static void SAction(Inst * self)
{
   const char * where = self ? "cb:" : ""; const uint64 t = GetRunTime64(); const uint32 o = R(100);
   if (o < 25) { Inst * b = PickInst(-1); if (!b) return; const bool clear = R(2) != 0; b->req = PickReq(t);
      Op(vh::fmt("%sinvalidate %s clear=%d req=%s", where, Name(*b).c_str(), (int)clear, T(b->req).c_str())); b->node->InvalidatePulseTime(clear); b->valid = false; if (clear) b->sched = NEVER; vh::stat(std::string(where) + "srv_op_invalidate"); }
   else if (o < 33 && self) { const bool clear = R(2) != 0; self->req = PickReq(t); Op(vh::fmt("cb:invalidate self %s clear=%d", Name(*self).c_str(), (int)clear)); self->node->InvalidatePulseTime(clear); self->valid = false; if (clear) self->sched = NEVER; vh::stat("cb:srv_op_invalidate_self"); }
   else if (o < 43) { Inst * b = PickInst(-1); if (!b) return; b->req = PickReq(t); Op(vh::fmt("%sretime %s req=%s", where, Name(*b).c_str(), T(b->req).c_str())); vh::stat(std::string(where) + "srv_op_retime"); }
   else if (o < 62) { Inst * k = PickInst(C_CHILD), * p = PickInst(-1); if (!k || !p || p->state == S_LIMBO || InChain(k->id, p->id) || DepthOf(p->id) >= 4) return;
      if (self && InChain(k->id, self->id)) return;
      Op(vh::fmt("%sattach %s under %s", where, Name(*k).c_str(), Name(*p).c_str()));
      p->node->PutPulseChild(k->node); if (k->parent >= 0) k->valid = false; k->parent = p->id; k->state = S_ATTACHED; vh::stat(std::string(where) + "srv_op_attach_child"); }
   else if (o < 72) { Inst * k = PickInst(C_CHILD); if (!k || k->parent < 0 || (self && InChain(k->id, self->id))) return; DetachKid(*k, where); }
   else if (o < 78) { Inst * f = PickInst(C_FACTORY); if (!f) return; f->ready = !f->ready; Op(vh::fmt("%s%s ready=%d", where, Name(*f).c_str(), (int)f->ready)); vh::stat(std::string(where) + "srv_op_toggle_factory_ready"); }
   else if (o < 84) { Inst * x = PickInst(C_SESSION); if (!x) return; x->ready = !x->ready; Op(vh::fmt("%s%s ready for input=%d", where, Name(*x).c_str(), (int)x->ready)); vh::stat(std::string(where) + "srv_op_toggle_session_ready_for_input"); }
   else if (o < 90) { Inst * x = PickInst(C_SESSION); if (!x || x->state != S_ATTACHED) return; Op(vh::fmt("%s%s gets an outgoing Message", where, Name(*x).c_str())); outputQueued = true; (void)static_cast<Ses *>(x->node)->AddOutgoingMessage(GetMessageFromPool(1234)); vh::stat(std::string(where) + "srv_op_session_output_busy"); }
   else if (self) { self->req = PickReq(t); Op(vh::fmt("cb:next time of %s = %s", Name(*self).c_str(), T(self->req).c_str())); }
}

struct Bench {
   Srv server; std::vector<ReflectSessionFactoryRef> facs; std::vector<uint16> ports; std::vector<int> facInst; std::vector<AbstractReflectSessionRef> sess; std::vector<ConstSocketRef> peers; std::vector<Kid *> kids;
   void AddFactory(bool ready, uint64 req, bool setReq) {
      Fac * f = new Fac; ReflectSessionFactoryRef r(f); Inst & x = NewInst(C_FACTORY, f); f->inst = x.id; x.ready = ready; if (setReq) x.req = req; uint16 port = 0;
      if (server.PutAcceptFactory(0, r, localhostIP, &port).IsError()) { fprintf(stderr, "HARNESS-ABORT: PutAcceptFactory on loopback failed\n"); exit(2); }
      x.state = S_ATTACHED; facs.push_back(r); ports.push_back(port); facInst.push_back(x.id); Op(vh::fmt("factory %s ready=%d req=%s", Name(x).c_str(), (int)ready, T(x.req).c_str())); vh::stat("server_factories"); }
   void AddSession() {
      ConstSocketRef a, b; if (CreateConnectedSocketPair(a, b).IsError()) { fprintf(stderr, "HARNESS-ABORT: socket pair\n"); exit(2); }
      Ses * s = new Ses; AbstractReflectSessionRef r(s); Inst & x = NewInst(C_SESSION, s); s->inst = x.id;
      if (server.AddNewSession(r, a).IsError()) { fprintf(stderr, "HARNESS-ABORT: AddNewSession\n"); exit(2); }
      x.state = S_ATTACHED; sess.push_back(r); peers.push_back(b); Op(vh::fmt("session %s req=%s", Name(x).c_str(), T(x.req).c_str())); vh::stat("server_sessions"); }
   std::vector<AbstractSessionIOPolicyRef> pols;
   void AddPolicy() {
      Inst * sx = PickInst(C_SESSION); if (!sx || sx->state != S_ATTACHED) return; const int slot = (int)R(2); if (sx->pol[slot] >= 0) return;
      Inst * px = NULL;
      if (R(3) == 0) { px = PickInst(C_POLICY); }                       // share an existing policy (other session, or the other direction)
      if (!px) { Pol * p = new Pol; pols.push_back(AbstractSessionIOPolicyRef(p)); px = &NewInst(C_POLICY, p); p->inst = px->id; vh::stat("policy_nodes"); }
      Ses * ses = static_cast<Ses *>(sx->node); AbstractSessionIOPolicyRef ref; for (size_t i = 0; i < pols.size(); i++) if (pols[i]() == static_cast<Pol *>(px->node)) ref = pols[i];
      if (slot == 0) ses->SetInputPolicy(ref); else ses->SetOutputPolicy(ref);
      sx->pol[slot] = px->id; px->holders.push_back(sx->id); Op(vh::fmt("%s is the %s policy of %s (req=%s)", Name(*px).c_str(), slot ? "output" : "input", Name(*sx).c_str(), T(px->req).c_str())); vh::stat(slot ? "policy_set_as_output_policy" : "policy_set_as_input_policy"); }
   void AddKid() { Kid * k = new Kid; Inst & x = NewInst(C_CHILD, k); k->inst = x.id; kids.push_back(k); Inst * p = PickInst(-1);
      if (p && p->state != S_LIMBO && DepthOf(p->id) < 4 && p->id != x.id) { p->node->PutPulseChild(k); x.parent = p->id; x.state = S_ATTACHED; Op(vh::fmt("child %s under %s req=%s", Name(x).c_str(), Name(*p).c_str(), T(x.req).c_str())); if (p->cls == C_SESSION) vh::stat("session_child_nodes"); }
      vh::stat("server_child_nodes"); }
   void CheckMin(uint64 next, const char * what) { if (caseBad || !minCheckable) return;
      if (next < snapshotMin && outputQueued) { vh::stat("unspecified_wakeup_earlier_than_every_pulse_time_with_session_output_pending"); return; }   // the server also wakes for output stall limits (not pulse nodes)
      if (next != snapshotMin) Fail(next < snapshotMin ? "server|wakeup_time_too_early" : "server|wakeup_time_too_late", vh::fmt("%s reported the next pulse time %s, the minimum over the attached nodes' answers is %s", what, T(next).c_str(), T(snapshotMin).c_str())); }
   void Single() { uint64 next = 0; Op("STEP ServerProcessLoop(0)"); inLoop = true; status_t r = server.ServerProcessLoop(0, &next); inLoop = false; vh::stat("server_single_steps"); if (r.IsError()) Fail("server|ServerProcessLoop_error", r()); CheckMin(next, "ServerProcessLoop(0)"); }
   void Timed() {
      const uint64 runUntil = GetRunTime64() + 40000 + R(20001); uint64 next = 0; Op(vh::fmt("RUN ServerProcessLoop(until %s)", T(runUntil).c_str()));
      inLoop = true; status_t r = server.ServerProcessLoop(runUntil, &next); inLoop = false; vh::stat("server_timed_loops"); if (r.IsError()) Fail("server|ServerProcessLoop_error", r());
      if (!caseBad && GetRunTime64() < runUntil) Fail("server|loop_returned_early", "ServerProcessLoop(runUntil) returned before runUntil");
      CheckMin(next, "ServerProcessLoop(runUntil)");
      // (b) the server claims to have run until runUntil: one quiet cycle later (cycle start >= runUntil) nothing that was due may be left
      quietMode = true; if (!caseBad) Single(); if (!caseBad) Single(); quietMode = false;
      for (size_t i = 0; i < insts.size() && !caseBad; i++) { const Inst & x = insts[i]; if (Status((int)i) == S_ATTACHED && x.valid && x.lastReturned <= runUntil) Fail(std::string("server|due_node_not_served_when_loop_returned|") + clsName[x.cls], vh::fmt("%s asked for %s, ServerProcessLoop(%s) returned and a quiet cycle ran, it has not fired", Name(x).c_str(), T(x.lastReturned).c_str(), T(runUntil).c_str())); }
   }
   void Finish() { server.Cleanup(); facs.clear(); sess.clear(); pols.clear(); peers.clear(); for (size_t i = 0; i < kids.size(); i++) delete kids[i]; kids.clear(); }
};
static void ResetCase(uint64_t cs) { g = vh::Rng(cs); trace.clear(); caseBad = false; insts.clear(); quietMode = false; snapshotDone = true; inLoop = false; minCheckable = true; outputQueued = false; snapshots = 0; snapshotMin = NEVER; }

static void RunServerCase(long k, uint64_t cs)
{
   ResetCase(cs);
   {
      Bench b; b.server.SetDoLogging(false);
      Inst & sx = NewInst(C_SERVER, &b.server); b.server.inst = sx.id; sx.state = S_ATTACHED;
      const int nf = 1 + (int)R(3); for (int i = 0; i < nf; i++) b.AddFactory(R(2) != 0, 0, false);
      const int ns = 1 + (int)R(4); for (int i = 0; i < ns; i++) b.AddSession();
      const int np = (int)R(5); for (int i = 0; i < np; i++) b.AddPolicy();
      const int nk = (int)R(9); for (int i = 0; i < nk; i++) b.AddKid();
      int timedLeft = 2 + (int)R(2); const int steps = 6 + (int)R(8);
      for (int s = 0; s < steps && !caseBad; s++) {
         const int nops = (int)R(4);
         for (int i = 0; i < nops && !caseBad; i++) {
            const uint32 o = R(100);
            if (o < 70) SAction(NULL);
            else if (o < 78 && b.sess.size() < 8) b.AddSession();
            else if (o < 84 && b.kids.size() < 16) b.AddKid();
            else if (o < 88 && b.pols.size() < 8) b.AddPolicy();
            else if (o < 92) { Inst * x = PickInst(C_SESSION); if (x && x->state == S_ATTACHED) { Op(vh::fmt("EndSession %s", Name(*x).c_str())); x->state = S_LIMBO; static_cast<Ses *>(x->node)->EndSession(); vh::stat("srv_op_end_session"); } }
            else if (o < 95 && b.facs.size() > 1) { const size_t fi = R((uint32)b.facs.size()); Inst & x = insts[b.facInst[fi]]; if (x.state == S_ATTACHED) { Op(vh::fmt("RemoveAcceptFactory %s", Name(x).c_str())); x.state = S_LIMBO; (void)b.server.RemoveAcceptFactory(b.ports[fi], localhostIP); vh::stat("srv_op_remove_factory"); } }
         }
         if (caseBad) break;
         if (timedLeft > 0 && (R(4) == 0 || steps - s <= timedLeft)) { timedLeft--; b.Timed(); } else b.Single();
      }
      long fires = 0; for (size_t i = 0; i < insts.size(); i++) fires += insts[i].fires;
      vh::stat("server_cases"); vh::stat("server_snapshots", snapshots); if (!minCheckable) vh::stat("unspecified_base_class_wants_a_pulse");
      vh::distinct(vh::fnv(&cs, sizeof(cs)), fires >= 5);
      if (vh::want_sample()) { std::string s = vh::fmt("server case %ld: %zu nodes, %ld fires: ", k, insts.size(), fires); for (size_t i = 0; i < trace.size() && i < 25; i++) { s += trace[i]; s += "; "; } vh::sample(s + "..."); }
      b.Finish();
   }
   insts.clear();
}

// the seeded scenario: a factory that refuses connections and wants a pulse (accept throttling that resumes through its own timer)
static void RegressNotReadyFactory()
{
   vh::begin_case(10); ResetCase(77);
   {
      Bench b; b.server.SetDoLogging(false);
      Inst & sx = NewInst(C_SERVER, &b.server); b.server.inst = sx.id; sx.state = S_ATTACHED; sx.req = NEVER;
      b.AddFactory(false, GetRunTime64() + 5000, true);
      quietMode = true;
      b.Single();
      if (!caseBad) b.Timed();
      if (!caseBad && insts[1].fires != 1) Fail("regress|not_ready_factory_must_be_pulsed", vh::fmt("factory fired %ld times, expected once", insts[1].fires));
      b.Finish();
   }
   insts.clear(); vh::distinct(11);
}
// the second seeded scenario: the output policy of a connected session with nothing to send wants a pulse (no holder is ready, so BeginIO() is not called)
static void RegressIdleOutputPolicy()
{
   vh::begin_case(11); ResetCase(78);
   {
      Bench b; b.server.SetDoLogging(false);
      Inst & sx = NewInst(C_SERVER, &b.server); b.server.inst = sx.id; sx.state = S_ATTACHED; sx.req = NEVER;
      b.AddSession(); insts[1].req = NEVER;
      for (int t = 0; t < 50 && b.pols.empty(); t++) b.AddPolicy();
      if (b.pols.empty()) { fprintf(stderr, "HARNESS-ABORT: no policy\n"); exit(2); }
      Inst & px = insts[2]; if (insts[1].pol[1] != px.id) { Ses * ses = static_cast<Ses *>(insts[1].node); if (insts[1].pol[0] == px.id) { ses->SetInputPolicy(AbstractSessionIOPolicyRef()); insts[1].pol[0] = -1; } ses->SetOutputPolicy(b.pols[0]); insts[1].pol[1] = px.id; }
      px.req = GetRunTime64() + 5000;
      quietMode = true;
      b.Single();
      if (!caseBad) b.Timed();
      if (!caseBad && px.fires != 1) Fail("regress|idle_output_policy_must_be_pulsed", vh::fmt("the policy fired %ld times, expected once", px.fires));
      b.Finish();
   }
   insts.clear(); vh::distinct(12);
}
}  // namespace srv

int main(int argc, char ** argv)
{
   CompleteSetupSystem css;
   vh::init(argc, argv);
   vh::Ctx & c = vh::ctx();
   optStackInvalidate = vh::optl("gpt_stack_invalidate", 0) != 0;
   (void)SetConsoleLogLevel(MUSCLE_LOG_NONE);
   if (vh::opt("mode", "model") == "regress") { Regress(); srv::RegressNotReadyFactory(); srv::RegressIdleOutputPolicy(); return vh::finish(); }
   if (vh::opt("mode", "model") == "server") { for (long k = c.from; k < c.from + c.cases; k++) { vh::begin_case(k); srv::RunServerCase(k, vh::case_seed(c.seed, 2002, (uint64_t)k)); } return vh::finish(); }
   for (long k = c.from; k < c.from + c.cases; k++) { vh::begin_case(k); RunCase(k, vh::case_seed(c.seed, 2001, (uint64_t)k)); }
   return vh::finish();
}
