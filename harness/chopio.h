// chopio.h -- scripted stream transports for the gateway harnesses (DESIGN.md 2.4; used by C03 h_gwpipe, meant for the
// C02 parser harness too).  Header-only; needs only muscle's dataio/DataIO.h and vh.h (for the PRNG).
//
//   chopio::Pipe      an in-memory one-directional byte stream (nothing is ever discarded, so every position is an absolute
//                     stream offset) with an incremental FRAME SCANNER: as bytes are appended it records where frames start,
//                     how long their header is and where they end, for one of the framings FR_* below.  Optional absolute
//                     readLimit / writeLimit offsets implement "one segment boundary exactly at offset X" (exhaustive sweeps).
//                     A foreign sender (raw text, hand-made WebSocket frames, hostile bytes for C02) writes with Pipe::Append().
//                     Pipe::closed = true makes Read() return B_IO_ERROR once everything was read (EOF); Pipe::Restart() begins a
//                     fresh stream after both gateways were Reset() (unread bytes discarded, scanner back at a frame boundary).
//   chopio::Chopper   the transfer-size policy f(prng) shared by the DataIO objects of one case, plus the LOG of every
//                     Read/Write (pipe, direction, bytes asked, bytes transferred).  Modes: CM_RANDOM (each call transfers
//                     0 = would-block, 1, a few, a boundary-seeking amount, a uniform amount or everything, with weights drawn
//                     per case by DrawTemperament()), CM_EVERYTHING (only the pipes' limits cut), CM_SCRIPT (replays the
//                     transferred amounts of an earlier log: a segmentation is replayable from Chopper::log alone).
//                     Boundary-seeking = land exactly on / one before / one after: the end of the current frame, the end of its
//                     header, each header byte, its last body byte, frame start + 2047/2048/2049 (MessageIOGateway's scratch
//                     buffer), or transfer exactly 2047/2048/2049 bytes (PlainText's stack buffer).
//   chopio::ChopDataIO  a muscle::DataIO whose Read() takes from one Pipe and whose Write() appends to another (either may be
//                     NULL), sized by the Chopper.  Read()==0 means "no data right now", Write()==0 "buffer full right now".
//   chopio::ChopPair  two ChopDataIOs around two Pipes (a<->b), e.g. WebSocket client <-> server.
//   chopio::CSend / CRecv   adaptors with the callback signature of the C gateways (arg = ChopDataIO *).
//   Chopper::Histogram()    classifies every read boundary (and write boundary) of the log against the frame structure:
//                     m8_hdr0..7 / m8_body_first / m8_body_last / m8_body_mid / m8_at2047|2048|2049, ws_*, line_*, slip_*, chunk_*.
//   Chopper::Signature()    digest of the segmentation (sequence of pipe, direction, transferred bytes).
//   Chopper::LogString()    compact printable form of the log for violation details ("0r8 0r0 0w1x5 ...").
#ifndef VERIF_CHOPIO_H
#define VERIF_CHOPIO_H
#include "dataio/DataIO.h"
#include <vector>
#include <string>
#include <map>
#include <cstring>
#include <cstdint>
#include "vh.h"

namespace chopio {
using namespace muscle;

enum { FR_NONE = 0,      // no structure
       FR_MUSCLE8,       // MessageIOGateway family: 8-byte header, uint32 LE body length (bit 31 masked off: templating flag), uint32 encoding
       FR_LINES,         // text: a frame is a line including its terminator (CR, LF or CRLF)
       FR_SLIP,          // a frame ends after each SLIP END byte (0300)
       FR_WEBSOCKET,     // RFC 6455 frames (2..14 header bytes), optionally preceded by one HTTP preamble ending in CRLFCRLF
       FR_FIXED };       // fixed-size chunks (RawData min-chunk)

static const size_t NO_OFFSET_LIMIT = (size_t)-1;

struct FrameMark {
   size_t start;      // absolute offset of the first byte
   uint32_t hdr;      // header bytes (0 = none / not known yet)
   size_t len;        // total bytes incl. header; 0 while unknown
   bool closed;       // all its bytes have been appended
   uint8_t kind;      // 0 = frame, 1 = HTTP preamble
   FrameMark() : start(0), hdr(0), len(0), closed(false), kind(0) {}
};

// incremental scanner state (small, copyable: the write-side look-ahead runs a copy over the offered bytes)
struct ScanState {
   int framing; uint32_t fixedLen; bool httpFirst;
   size_t pos;               // bytes fed so far
   uint8_t hb[14];           // header bytes of the open frame
   bool pendingCR; uint32_t httpMatch; bool sawHttp;
   ScanState() : framing(FR_NONE), fixedLen(0), httpFirst(false), pos(0), pendingCR(false), httpMatch(0), sawHttp(false) { memset(hb, 0, sizeof(hb)); }
};

static inline void ScanOpen(ScanState & s, std::vector<FrameMark> & fr)
{
   FrameMark f; f.start = s.pos;
   if (s.framing == FR_MUSCLE8) f.hdr = 8;
   if (s.framing == FR_FIXED) { f.len = s.fixedLen; }
   if (s.framing == FR_WEBSOCKET && s.httpFirst && !s.sawHttp) { f.kind = 1; s.sawHttp = true; s.httpMatch = 0; }
   fr.push_back(f);
}
static inline void ScanClose(ScanState & s, std::vector<FrameMark> & fr) { FrameMark & f = fr.back(); f.len = s.pos - f.start; f.closed = true; }

static inline void ScanFeed(ScanState & s, std::vector<FrameMark> & fr, uint8_t b)
{
   if (fr.empty() || fr.back().closed) ScanOpen(s, fr);
   size_t off = s.pos - fr.back().start;
   switch (s.framing) {
   case FR_MUSCLE8:
      if (off < 8) s.hb[off] = b;
      if (off == 3) { uint32_t n = (uint32_t)s.hb[0] | ((uint32_t)s.hb[1] << 8) | ((uint32_t)s.hb[2] << 16) | ((uint32_t)s.hb[3] << 24); fr.back().len = 8 + (size_t)(n & 0x7fffffffu); }
      s.pos++;
      if (fr.back().len && s.pos == fr.back().start + fr.back().len) fr.back().closed = true;
      break;
   case FR_LINES:
      if (s.pendingCR) {
         s.pendingCR = false;
         if (b == '\n') { s.pos++; ScanClose(s, fr); return; }
         ScanClose(s, fr); ScanOpen(s, fr);
      }
      s.pos++;
      if (b == '\n') ScanClose(s, fr); else if (b == '\r') s.pendingCR = true;
      break;
   case FR_SLIP:
      s.pos++; if (b == 0300) ScanClose(s, fr);
      break;
   case FR_FIXED:
      s.pos++; if (s.fixedLen && s.pos - fr.back().start == s.fixedLen) fr.back().closed = true;
      break;
   case FR_WEBSOCKET:
      if (fr.back().kind == 1) {
         static const char pat[5] = "\r\n\r\n";
         if ((char)b == pat[s.httpMatch]) s.httpMatch++; else s.httpMatch = ((char)b == '\r') ? 1 : 0;
         s.pos++;
         if (s.httpMatch == 4) { ScanClose(s, fr); fr.back().hdr = (uint32_t)fr.back().len; }
      } else {
         if (off < 14) s.hb[off] = b;
         FrameMark & f = fr.back();
         if (off == 1) { uint32_t l7 = b & 0x7f; f.hdr = 2 + (l7 == 126 ? 2 : l7 == 127 ? 8 : 0) + ((b & 0x80) ? 4 : 0); if (l7 < 126) f.len = f.hdr + l7; }
         else if (off == 3 && (s.hb[1] & 0x7f) == 126) f.len = f.hdr + (((size_t)s.hb[2] << 8) | s.hb[3]);
         else if (off == 9 && (s.hb[1] & 0x7f) == 127) { uint64_t n = 0; for (int i = 2; i < 10; i++) n = (n << 8) | s.hb[i]; f.len = f.hdr + (size_t)n; }
         s.pos++;
         if (off >= 1 && f.len && s.pos == f.start + f.len) f.closed = true;
      }
      break;
   default:
      s.pos++;
      break;
   }
}

class Pipe {
public:
   std::vector<uint8_t> buf;        // everything ever written
   size_t rpos;                     // next byte to read
   size_t readLimit, writeLimit;    // absolute offsets no Read / Write crosses while set
   ScanState scan; std::vector<FrameMark> frames;
   std::string name;
   bool closed;                     // the writer has closed the stream: once everything is read, Read() reports an error (as a TCP stream does at EOF)
   long restarts;

   explicit Pipe(int framing = FR_NONE, uint32_t fixedLen = 0, bool httpFirst = false) : rpos(0), readLimit(NO_OFFSET_LIMIT), writeLimit(NO_OFFSET_LIMIT), closed(false), restarts(0) { scan.framing = framing; scan.fixedLen = fixedLen; scan.httpFirst = httpFirst; }
   size_t Written() const { return buf.size(); }
   size_t Unread() const { return buf.size() - rpos; }
   bool Empty() const { return rpos == buf.size(); }
   size_t Readable() const { size_t lim = buf.size() < readLimit ? buf.size() : readLimit; return lim > rpos ? lim - rpos : 0; }
   size_t Writable() const { return writeLimit == NO_OFFSET_LIMIT ? (size_t)0x7fffffff : (writeLimit > buf.size() ? writeLimit - buf.size() : 0); }
   void Append(const void * p, size_t n) { const uint8_t * b = (const uint8_t *)p; buf.insert(buf.end(), b, b + n); for (size_t i = 0; i < n; i++) ScanFeed(scan, frames, b[i]); }
   void Append(const std::string & s) { Append(s.data(), s.size()); }
   // a fresh data stream begins (both gateways were Reset()): unread bytes are discarded, the frame scanner starts at a frame boundary
   void Restart() { rpos = buf.size(); if (!frames.empty() && !frames.back().closed) { frames.back().len = buf.size() - frames.back().start; frames.back().closed = true; } scan.pendingCR = false; scan.httpMatch = 0; closed = false; restarts++; }
   size_t Take(void * out, size_t n) { if (n) memcpy(out, &buf[rpos], n); rpos += n; return n; }

   // index of the frame that holds stream offset 'off' (the frame whose first byte it is when off is a frame start); -1 = beyond what is known
   long Find(size_t off, const std::vector<FrameMark> & fr) const
   {
      size_t lo = 0, hi = fr.size();
      while (lo < hi) { size_t mid = (lo + hi) / 2; if (fr[mid].start <= off) lo = mid + 1; else hi = mid; }
      if (lo == 0) return -1;
      const FrameMark & f = fr[lo - 1];
      if (f.closed && off >= f.start + f.len) return -1;
      return (long)(lo - 1);
   }
   long Find(size_t off) const { return Find(off, frames); }

   // interesting absolute offsets after 'from' (at most from+maxN), relative to the frame structure in 'fr'
   static void SeekTargets(const std::vector<FrameMark> & fr, long idx, size_t from, size_t maxN, std::vector<uint32_t> & out)
   {
      if (idx < 0) return;
      for (long i = idx; i < (long)fr.size() && i < idx + 2; i++) {
         const FrameMark & f = fr[(size_t)i];
         size_t c[32]; int n = 0;
         uint32_t h = f.hdr ? f.hdr : 0;
         for (uint32_t k = 0; k <= h + 1 && k < 16; k++) c[n++] = f.start + k;            // frame start, every header byte, first body byte, the one after
         if (h > 0) c[n++] = f.start + h - 1;
         if (f.len) { c[n++] = f.start + f.len - 1; c[n++] = f.start + f.len; c[n++] = f.start + f.len + 1; if (f.len >= 2) c[n++] = f.start + f.len - 2; }
         c[n++] = f.start + 2047; c[n++] = f.start + 2048; c[n++] = f.start + 2049;
         for (int j = 0; j < n; j++) if (c[j] > from && c[j] - from <= maxN) out.push_back((uint32_t)(c[j] - from));
      }
   }

   // names of the classes a segment boundary at absolute offset E (E bytes before it, byte E after it) belongs to
   void Classify(size_t E, std::vector<std::string> & out) const
   {
      if (E >= buf.size()) { out.push_back("stream_end"); return; }
      long idx = Find(E); if (idx < 0) { out.push_back("unknown"); return; }
      const FrameMark & f = frames[(size_t)idx]; size_t pos = E - f.start;
      switch (scan.framing) {
      case FR_MUSCLE8:
         if (pos < 8) out.push_back(vh::fmt("m8_hdr%u", (unsigned)pos));
         else if (pos == 8) out.push_back("m8_body_first");
         else if (f.len && pos == f.len - 1) out.push_back("m8_body_last");
         else out.push_back("m8_body_mid");
         if (pos >= 2047 && pos <= 2049) out.push_back(vh::fmt("m8_at%u", (unsigned)pos));
         break;
      case FR_WEBSOCKET:
         if (f.kind == 1) out.push_back(pos == 0 ? "ws_http_start" : "ws_http_mid");
         else if (pos == 0) out.push_back("ws_hdr0");
         else if (pos < f.hdr || f.hdr == 0) out.push_back(vh::fmt("ws_hdr%u", (unsigned)pos));
         else if (pos == f.hdr) out.push_back("ws_payload_first");
         else if (f.len && pos == f.len - 1) out.push_back("ws_payload_last");
         else out.push_back("ws_payload_mid");
         break;
      case FR_LINES:
         if (E > 0 && buf[E - 1] == '\r' && buf[E] == '\n') out.push_back("line_between_cr_lf");
         else if (pos == 0) out.push_back("line_start");
         else if (buf[E] == '\r' || buf[E] == '\n') out.push_back("line_before_terminator");
         else out.push_back("line_mid");
         break;
      case FR_SLIP:
         if (E > 0 && buf[E - 1] == 0333) out.push_back("slip_after_esc");
         else if (pos == 0) out.push_back("slip_frame_start");
         else if (buf[E] == 0300) out.push_back("slip_before_end");
         else out.push_back("slip_mid");
         break;
      case FR_FIXED:
         if (pos == 0) out.push_back("chunk_start"); else if (pos == 1) out.push_back("chunk_plus1"); else if (f.len && pos == f.len - 1) out.push_back("chunk_minus1"); else out.push_back("chunk_mid");
         break;
      default: out.push_back("unframed"); break;
      }
   }
};

struct Xfer { uint8_t pipe; uint8_t isRead; uint32_t asked; uint32_t got; };

enum { CM_RANDOM = 0, CM_EVERYTHING, CM_SCRIPT };
enum { CW_ZERO = 0, CW_ONE, CW_ALL, CW_SMALL, CW_SEEK, CW_UNIFORM, NUM_CW };

class Chopper {
public:
   vh::Rng rng; int mode;
   bool force;                       // while set, never transfer 0 bytes when >= 1 is possible (the scheduler's quiescence probe)
   uint32_t w[2][NUM_CW];            // weights, [0] = writes, [1] = reads
   long dribble[2];                  // that many following transfers move exactly 1 byte (walks through every offset)
   std::vector<uint32_t> script; size_t scriptPos;
   std::vector<Xfer> log; size_t maxLog; long dropped;
   uint64_t sig; long nRead, nWrite, zeroReads, zeroWrites, shortReads;

   explicit Chopper(uint64_t seed = 1) : rng(seed), mode(CM_RANDOM), force(false), scriptPos(0), maxLog(400000), dropped(0), sig(1469598103934665603ULL), nRead(0), nWrite(0), zeroReads(0), zeroWrites(0), shortReads(0)
   { for (int d = 0; d < 2; d++) { static const uint32_t bal[NUM_CW] = {10, 15, 20, 20, 20, 15}; memcpy(w[d], bal, sizeof(bal)); dribble[d] = 0; } }

   // per-case character of each direction, so that whole cases run in one style as well as mixed
   void DrawTemperament()
   {
      for (int d = 0; d < 2; d++) {
         static const uint32_t T[6][NUM_CW] = { {10, 15, 20, 20, 20, 15},    // balanced
                                                {8, 10, 10, 12, 55, 5},      // boundary seeker
                                                {10, 5, 65, 5, 10, 5},       // mostly everything
                                                {40, 10, 15, 15, 10, 10},    // would-block heavy
                                                {10, 45, 5, 30, 5, 5},       // tiny pieces
                                                {0, 0, 100, 0, 0, 0} };      // this direction never chops
         uint32_t t = rng.R(12); if (t >= 6) t = (t < 9) ? 0 : 1;
         memcpy(w[d], T[t], sizeof(T[t]));
         dribble[d] = (rng.R(8) == 0) ? (long)(200 + rng.R(6000)) : 0;
      }
   }
   void SetScript(const std::vector<Xfer> & from) { script.clear(); for (size_t i = 0; i < from.size(); i++) if (from[i].isRead != 2) script.push_back(from[i].got); scriptPos = 0; mode = CM_SCRIPT; }
   // after Pipe::Restart(): a log entry (isRead == 2, asked = the stream offset where the fresh stream begins) so that offsets computed from the log stay right
   void NoteRestart(uint8_t pipe, size_t offset) { sig = vh::mix64(sig ^ 0x5E5E7ULL ^ ((uint64_t)pipe << 40)); if (log.size() < maxLog) { Xfer t; t.pipe = pipe; t.isRead = 2; t.asked = (uint32_t)offset; t.got = 0; log.push_back(t); } else dropped++; }

   struct SeekSource { virtual ~SeekSource() {} virtual void Candidates(std::vector<uint32_t> & out, uint32_t maxN) = 0; };

   uint32_t Decide(bool isRead, uint32_t maxN, SeekSource * src)
   {
      if (mode == CM_SCRIPT) { if (scriptPos >= script.size()) return maxN; uint32_t n = script[scriptPos++]; return n < maxN ? n : maxN; }   // one entry per call, also for calls that could not move anything
      if (maxN == 0) return 0;
      if (mode == CM_EVERYTHING) return maxN;
      const int d = isRead ? 1 : 0;
      if (dribble[d] > 0) { dribble[d]--; if (!force && rng.R(12) == 0) return 0; return 1; }
      uint32_t tot = 0; for (int i = 0; i < NUM_CW; i++) tot += w[d][i];
      uint32_t r = rng.R(tot), cat = 0; while (cat + 1 < NUM_CW && r >= w[d][cat]) { r -= w[d][cat]; cat++; }
      uint32_t n;
      switch (cat) {
      case CW_ZERO: n = 0; break;
      case CW_ONE: n = 1; break;
      case CW_ALL: n = maxN; break;
      case CW_SMALL: n = 1 + rng.R(maxN < 9 ? maxN : 9); break;
      case CW_SEEK: {
         std::vector<uint32_t> c; if (src) src->Candidates(c, maxN);
         static const uint32_t abs3[3] = {2047, 2048, 2049}; for (int i = 0; i < 3; i++) if (abs3[i] <= maxN && rng.R(4) == 0) c.push_back(abs3[i]);
         n = c.empty() ? 1 + rng.R(maxN) : c[rng.R((uint32_t)c.size())];
      } break;
      default: n = 1 + rng.R(maxN); break;
      }
      if (n > maxN) n = maxN;
      if (n == 0 && force) n = 1 + rng.R(maxN < 4 ? maxN : 4);
      return n;
   }
   void Record(uint8_t pipe, bool isRead, uint32_t asked, uint32_t got)
   {
      if (isRead) { nRead++; if (got == 0) zeroReads++; else if (got < asked) shortReads++; } else { nWrite++; if (got == 0) zeroWrites++; }
      uint64_t x = ((uint64_t)pipe << 40) ^ ((uint64_t)(isRead ? 1 : 0) << 39) ^ got; sig = vh::mix64(sig ^ x);
      if (log.size() < maxLog) { Xfer t; t.pipe = pipe; t.isRead = isRead ? 1 : 0; t.asked = asked; t.got = got; log.push_back(t); } else dropped++;
   }
   uint64_t Signature() const { return sig; }

   // read/write boundary classes of the whole log; pipes[i] is the Pipe registered with id i
   void Histogram(const std::vector<const Pipe *> & pipes, std::map<std::string, long> & h) const
   {
      std::vector<size_t> ro(pipes.size(), 0), wo(pipes.size(), 0); std::vector<std::string> cls;
      for (size_t i = 0; i < log.size(); i++) {
         const Xfer & t = log[i]; if (t.pipe >= pipes.size() || pipes[t.pipe] == NULL) continue;
         if (t.isRead == 2) { ro[t.pipe] = wo[t.pipe] = t.asked; h["stream_restarts"]++; continue; }
         size_t & o = t.isRead ? ro[t.pipe] : wo[t.pipe];
         if (t.got == 0) { h[t.isRead ? "zero_byte_reads" : "zero_byte_writes"]++; continue; }
         o += t.got; cls.clear(); pipes[t.pipe]->Classify(o, cls);
         for (size_t j = 0; j < cls.size(); j++) h[std::string(t.isRead ? "rb_" : "wb_") + cls[j]]++;
      }
   }
   std::string LogString(size_t maxChars = 1500) const
   {
      std::string o; size_t i = 0;
      while (i < log.size() && o.size() < maxChars) {
         size_t j = i; while (j < log.size() && log[j].pipe == log[i].pipe && log[j].isRead == log[i].isRead && log[j].got == log[i].got) j++;
         o += log[i].isRead == 2 ? vh::fmt("%u!RESET", (unsigned)log[i].pipe) : vh::fmt("%u%c%u", (unsigned)log[i].pipe, log[i].isRead ? 'r' : 'w', log[i].got); if (j - i > 1) o += vh::fmt("x%zu", j - i); o += ' ';
         i = j;
      }
      if (i < log.size()) o += vh::fmt("... (%zu more)", log.size() - i);
      return o;
   }
};

class ChopDataIO : public DataIO {
public:
   Pipe * rd; Pipe * wr; Chopper * chop; uint8_t rdId, wrId;
   ChopDataIO(Pipe * readFrom, Pipe * writeTo, Chopper * c, uint8_t readPipeId = 0, uint8_t writePipeId = 0) : rd(readFrom), wr(writeTo), chop(c), rdId(readPipeId), wrId(writePipeId), _rs(this), _ws(this), _offered(NULL), _offeredLen(0) {}

   virtual io_status_t Read(void * b, uint32 size)
   {
      if (rd == NULL) return io_status_t((int32)0);
      if (rd->closed && rd->Empty()) { (void)chop->Decide(true, 0, NULL); chop->Record(rdId, true, size, 0); return io_status_t(B_IO_ERROR); }   // end of stream
      size_t av = rd->Readable(); uint32_t maxN = (uint32_t)(av < size ? av : size);
      uint32_t n = chop->Decide(true, maxN, &_rs);
      rd->Take(b, n); chop->Record(rdId, true, size, n);
      return io_status_t((int32)n);
   }
   virtual io_status_t Write(const void * b, uint32 size)
   {
      if (wr == NULL) return io_status_t((int32)size);   // a sink
      size_t room = wr->Writable(); uint32_t maxN = (uint32_t)(room < size ? room : size);
      _offered = (const uint8_t *)b; _offeredLen = size;
      uint32_t n = chop->Decide(false, maxN, &_ws);
      _offered = NULL;
      wr->Append(b, n); chop->Record(wrId, false, size, n);
      return io_status_t((int32)n);
   }
   virtual void FlushOutput() {}
   virtual void Shutdown() {}
   virtual const ConstSocketRef & GetReadSelectSocket() const { return GetNullSocket(); }
   virtual const ConstSocketRef & GetWriteSelectSocket() const { return GetNullSocket(); }

private:
   struct RS : public Chopper::SeekSource { ChopDataIO * io; explicit RS(ChopDataIO * i) : io(i) {}
      virtual void Candidates(std::vector<uint32_t> & out, uint32_t maxN) { Pipe * p = io->rd; Pipe::SeekTargets(p->frames, p->Find(p->rpos), p->rpos, maxN, out); } };
   struct WS : public Chopper::SeekSource { ChopDataIO * io; explicit WS(ChopDataIO * i) : io(i) {}
      virtual void Candidates(std::vector<uint32_t> & out, uint32_t maxN)
      {  // look ahead: run a copy of the scanner over (at most 4 KB of) the offered bytes
         Pipe * p = io->wr; ScanState s = p->scan; std::vector<FrameMark> fr; if (!p->frames.empty() && !p->frames.back().closed) fr.push_back(p->frames.back());
         size_t look = io->_offeredLen < 4200 ? io->_offeredLen : 4200; for (size_t i = 0; i < look; i++) ScanFeed(s, fr, io->_offered[i]);
         if (fr.empty()) return;
         size_t from = p->Written(); long idx = p->Find(from, fr); if (idx < 0) idx = 0;
         Pipe::SeekTargets(fr, idx, from, maxN, out);
      } };
   RS _rs; WS _ws; const uint8_t * _offered; size_t _offeredLen;
};

// two DataIOs around two pipes: a writes into ab and reads from ba, b the reverse
struct ChopPair {
   Pipe ab, ba; ChopDataIO a, b;
   ChopPair(Chopper * c, int framing = FR_NONE, uint32_t fixedLen = 0, bool httpFirst = false) : ab(framing, fixedLen, httpFirst), ba(framing, fixedLen, httpFirst), a(&ba, &ab, c, 1, 0), b(&ab, &ba, c, 0, 1) { ab.name = "a>b"; ba.name = "b>a"; }
};

// callbacks for the C gateways (MGDoOutput/MGDoInput, UGDoOutput/UGDoInput): arg is a ChopDataIO *
static inline int32 CSend(const uint8 * buf, uint32 n, void * arg) { return ((ChopDataIO *)arg)->Write(buf, n).GetByteCount(); }
static inline int32 CRecv(uint8 * buf, uint32 n, void * arg) { return ((ChopDataIO *)arg)->Read(buf, n).GetByteCount(); }

}  // namespace chopio
#endif
