// reffilter.h -- INDEPENDENT reference for muscle's QueryFilter classes (C14 h_filter; reusable by the reflector harnesses).
//
// Everything the oracle needs is expressed on ABSTRACT objects that do not depend on muscle's implementation:
//    AMsg      an abstract Message: what code + ordered fields, each a type and a list of items (AVal)
//    AFilter   an abstract filter tree over every filter kind of regex/QueryFilter.h
//    ANode     the two facts of a DataNode the node filters look at: its name and its number of children
//    Eval()    the reference evaluator, written from the class documentation in regex/QueryFilter.h (and, for the expression
//              grammar, "Beginners Guide.html"); three-valued: T_TRUE / T_FALSE / T_UNSPEC.  T_UNSPEC = the documentation does
//              not determine the answer (reason recorded in EvalCtx::why); it propagates through combinators only when it can
//              change their result (an AND with a definitely false child is definitely false).
// and the bridges to the real library:
//    BuildMessage(AMsg) -> MessageRef         (public Message API only; a failing build step is a HARNESS-ABORT)
//    BuildFilter(AFilter) -> QueryFilterRef   (public constructors / setters only)
//    BuildNode(ANode) -> DataNodeRef          (a real DataNode with real children, via StorageReflectSession::GetNewDataNode)
// plus generators (GenFilter, GenMessageFor: Messages chosen adversarially around each filter's field name, index, type and
// operand), a describer for witnesses, and ToExpression(): pretty-printer into the expression grammar of the Beginners Guide
// (returns false for trees the documented grammar cannot express).
//
// Documented rules used by Eval (the places where a reading had to be chosen are marked UNSPEC or listed in checks/C14.py):
//  * WhatCode: min <= what <= max.                      * ValueExists: field present, type matches (B_ANY_TYPE = any), index < count.
//  * Numeric<T>: the item (field, index) of exactly type T, else the assumed default if there is one, else false; mask operation
//    applied to that value before the comparison (integers and bool only: "not defined for floats, doubles, Points, or Rects");
//    six operators; Point/Rect ordered lexicographically (Tuple).
//  * String: same lookup/default rule on a string item; 24 comparison/search operators (IGNORECASE = both sides case-folded),
//    OP_SIMPLE_WILDCARD_MATCH / OP_REGULAR_EXPRESSION_MATCH (+IGNORECASE) on patterns generated from a small pattern AST.
//  * RawData: same lookup/default rule on the bytes of an item whose field type matches the filter's type code; unsigned
//    lexicographic comparison; prefix/suffix/infix and their inverses.
//  * Message: the sub-Message (field, index), else the default child Message, else false; no child filter = any sub-Message matches.
//  * MinimumThreshold(n): no children -> true (And/Or documentation); else true iff more than min(n, kids-1) children match.
//    MaximumThreshold(n): no children -> false (Nand/Nor documentation); else true iff NOT more than min(n, kids-1) match.
//    And = Min(NO_LIMIT), Or = Min(0), Nand = Max(NO_LIMIT), Nor = Max(0).  Xor: odd number of matching children.
//  * ChildCount: int32 comparison of the node's child count.  NodeName: string operator on the node's name.
#ifndef VERIF_REFFILTER_H
#define VERIF_REFFILTER_H
#include "regex/QueryFilter.h"
#include "message/Message.h"
#include "util/ByteBuffer.h"
#include "support/Point.h"
#include "support/Rect.h"
#ifndef REFFILTER_NO_DATANODE
# include "reflector/DataNode.h"
# include "reflector/StorageReflectSession.h"
#endif
#include <string>
#include <vector>
#include <memory>
#include <set>
#include <cmath>
#include <limits>
#include <cfloat>
#include <climits>
#include <cstring>
#include <cctype>
#include "vh.h"
#include "refwild.h"   // independent reference for the documented simple-wildcard syntax (C15); used for OP_SIMPLE_WILDCARD_MATCH[_IGNORECASE] operands

namespace reffilter {
using namespace muscle;

// ---------------------------------------------------------------------------------------------------------------- abstract objects
enum { VT_BOOL = 0, VT_INT8, VT_INT16, VT_INT32, VT_INT64, VT_FLOAT, VT_DOUBLE, VT_POINT, VT_RECT, NUM_NUMERIC_VT, VT_STRING = NUM_NUMERIC_VT, VT_RAW, VT_MESSAGE, NUM_VT };
static inline const char * VTName(int vt) { static const char * const n[] = {"bool", "int8", "int16", "int32", "int64", "float", "double", "point", "rect", "string", "raw", "message"}; return (vt >= 0 && vt < NUM_VT) ? n[vt] : "?"; }
static inline uint32 TypeCodeOf(int vt)
{
   switch (vt) {
      case VT_BOOL: return B_BOOL_TYPE; case VT_INT8: return B_INT8_TYPE; case VT_INT16: return B_INT16_TYPE; case VT_INT32: return B_INT32_TYPE; case VT_INT64: return B_INT64_TYPE;
      case VT_FLOAT: return B_FLOAT_TYPE; case VT_DOUBLE: return B_DOUBLE_TYPE; case VT_POINT: return B_POINT_TYPE; case VT_RECT: return B_RECT_TYPE; case VT_STRING: return B_STRING_TYPE;
      case VT_RAW: return B_RAW_TYPE; case VT_MESSAGE: return B_MESSAGE_TYPE; default: return B_ANY_TYPE; }
}
enum { CUSTOM_RAW_TYPE = 1668641652 };   // 'cust': a user type code whose items are byte buffers

struct AMsg;
typedef std::shared_ptr<AMsg> AMsgRef;
struct AVal {
   int64_t i;       // bool (0/1), int8..int64
   double d;        // double
   float f[4];      // float: f[0]; point: f[0..1] = x,y; rect: f[0..3] = left,top,right,bottom
   std::string s;   // string characters / raw bytes
   AMsgRef m;       // sub-Message
   AVal() : i(0), d(0) { f[0] = f[1] = f[2] = f[3] = 0; }
};
struct AField { std::string name; int vt; uint32 typeCode; std::vector<AVal> items; AField() : vt(VT_INT32), typeCode(B_INT32_TYPE) {} };
struct AMsg {
   uint32 what; std::vector<AField> fields;
   AMsg() : what(0) {}
   const AField * Find(const std::string & n) const { for (size_t i = 0; i < fields.size(); i++) if (fields[i].name == n) return &fields[i]; return NULL; }
   void Remove(const std::string & n) { for (size_t i = 0; i < fields.size(); i++) if (fields[i].name == n) { fields.erase(fields.begin() + i); return; } }
   AField & Set(const std::string & n, int vt, uint32 typeCode) { Remove(n); fields.push_back(AField()); AField & f = fields.back(); f.name = n; f.vt = vt; f.typeCode = typeCode; return f; }
};
struct ANode { std::string name; uint32 numChildren; ANode() : numChildren(0) {} };

enum { FK_WHAT = 0, FK_EXISTS, FK_NUMERIC, FK_STRING, FK_RAW, FK_MESSAGE, FK_MINMATCH, FK_MAXMATCH, FK_AND, FK_OR, FK_NAND, FK_NOR, FK_XOR, FK_CHILDCOUNT, FK_NODENAME, NUM_FK };
static inline const char * FKName(int k) { static const char * const n[] = {"what", "exists", "numeric", "string", "raw", "message", "minmatch", "maxmatch", "and", "or", "nand", "nor", "xor", "childcount", "nodename"}; return (k >= 0 && k < NUM_FK) ? n[k] : "?"; }
static inline bool IsMulti(int k) { return k >= FK_MINMATCH && k <= FK_XOR; }

// pattern AST for the wildcard / regex string operators (only what StringMatcher.h documents)
enum { PT_LIT = 0, PT_ANY1, PT_ANYN, PT_CLASS };
struct PTok { int kind; char c; std::string set; PTok() : kind(PT_LIT), c('a') {} };
enum { PAT_NONE = 0, PAT_GLOB, PAT_RANGE, PAT_WILD };   // PAT_RANGE: "<lo-hi>" numeric range (simple syntax only); PAT_WILD: a refwild::Pattern AST (full documented simple syntax incl. escapes, ~, <ranges>, comma lists, groups, classes)

struct AFilter {
   int kind;
   std::string field; uint32 index;       // value filters (exists, numeric, string, raw, message)
   int vt;                                // numeric: element type
   uint8 op, maskOp;
   AVal value, mask, def; bool hasDef;    // numeric: value/mask/def; string, raw, nodename: value.s / def.s; childcount: value.i
   bool nullValue;                        // raw: the operand is a NULL buffer reference
   uint32 typeCode;                       // exists, raw
   uint32 lo, hi;                         // what
   uint32 threshold;                      // minmatch / maxmatch
   bool hasChild; AMsgRef defMsg;         // message: kids[0] is the child filter when hasChild
   int patKind; std::vector<PTok> pat; bool patNeg; bool patHasLo, patHasHi; uint32 patLo, patHi;   // string ops 24..27
   std::shared_ptr<refwild::Pattern> wild;   // PAT_WILD (ops 24 and 26); value.s = refwild::Print(*wild)
   std::vector<AFilter> kids;
   AFilter() : kind(FK_WHAT), index(0), vt(VT_INT32), op(0), maskOp(0), hasDef(false), nullValue(false), typeCode(B_ANY_TYPE), lo(0), hi(0), threshold(0), hasChild(false),
               patKind(PAT_NONE), patNeg(false), patHasLo(false), patHasHi(false), patLo(0), patHi(0) {}
};

// ---------------------------------------------------------------------------------------------------------------- reference evaluator
enum Tri { T_FALSE = 0, T_TRUE = 1, T_UNSPEC = 2 };
struct EvalCtx {
   const ANode * node;
   std::set<std::string> why;                               // reasons for T_UNSPEC met during this evaluation
   long leafTrue[NUM_FK], leafFalse[NUM_FK], leafUnspec[NUM_FK];   // accumulated over evaluations (per filter kind, every tree node)
   EvalCtx() : node(NULL) { for (int i = 0; i < NUM_FK; i++) leafTrue[i] = leafFalse[i] = leafUnspec[i] = 0; }
};
static inline Tri Unspec(EvalCtx & c, const char * reason) { c.why.insert(reason); return T_UNSPEC; }
static inline Tri B2T(bool b) { return b ? T_TRUE : T_FALSE; }

static inline int IntBits(int vt) { return vt == VT_INT8 ? 8 : vt == VT_INT16 ? 16 : vt == VT_INT32 ? 32 : 64; }
static inline int64_t SignExt(int64_t v, int bits) { if (bits >= 64) return v; const uint64_t m = 1ULL << (bits - 1); const uint64_t u = (uint64_t)v & ((1ULL << bits) - 1); return (int64_t)((u ^ m) - m); }
static inline int CmpF(double a, double b) { if (a != a || b != b) return 2; return a < b ? -1 : a > b ? 1 : 0; }
// -1 / 0 / +1, or 2 when a NaN is involved
static inline int CmpNum(int vt, const AVal & a, const AVal & b)
{
   switch (vt) {
      case VT_FLOAT: return CmpF(a.f[0], b.f[0]);
      case VT_DOUBLE: return CmpF(a.d, b.d);
      case VT_POINT: case VT_RECT: {
         const int n = vt == VT_POINT ? 2 : 4;
         for (int i = 0; i < n; i++) if (a.f[i] != a.f[i] || b.f[i] != b.f[i]) return 2;
         for (int i = 0; i < n; i++) { const int c = CmpF(a.f[i], b.f[i]); if (c) return c; }
         return 0; }
      default: return a.i < b.i ? -1 : a.i > b.i ? 1 : 0;
   }
}
static inline bool ApplyCmpOp(uint8 op, int c) { switch (op) { case 0: return c == 0; case 1: return c < 0; case 2: return c > 0; case 3: return c <= 0; case 4: return c >= 0; default: return c != 0; } }
static inline int CmpBytes(const std::string & a, const std::string & b)
{
   const size_t n = a.size() < b.size() ? a.size() : b.size();
   for (size_t i = 0; i < n; i++) { const unsigned char x = (unsigned char)a[i], y = (unsigned char)b[i]; if (x != y) return x < y ? -1 : 1; }
   return a.size() < b.size() ? -1 : a.size() > b.size() ? 1 : 0;
}
static inline bool StartsW(const std::string & a, const std::string & b) { return a.size() >= b.size() && a.compare(0, b.size(), b) == 0; }
static inline bool EndsW(const std::string & a, const std::string & b) { return a.size() >= b.size() && a.compare(a.size() - b.size(), b.size(), b) == 0; }
static inline bool HasSub(const std::string & a, const std::string & b) { return a.find(b) != std::string::npos; }
static inline std::string Lower(std::string s) { for (size_t i = 0; i < s.size(); i++) if (s[i] >= 'A' && s[i] <= 'Z') s[i] = (char)(s[i] - 'A' + 'a'); return s; }
static inline bool HasFoldAmbiguousChar(const std::string & s) { for (size_t i = 0; i < s.size(); i++) if (s[i] >= 0x5B && s[i] <= 0x60) return true; return false; }

// backtracking matcher over the pattern AST (whole-string match)
static inline bool PatMatchAt(const std::vector<PTok> & p, size_t pi, const std::string & s, size_t si, bool fold)
{
   if (pi == p.size()) return si == s.size();
   const PTok & t = p[pi];
   if (t.kind == PT_ANYN) { for (size_t k = si; k <= s.size(); k++) if (PatMatchAt(p, pi + 1, s, k, fold)) return true; return false; }
   if (si >= s.size()) return false;
   const char ch = s[si];
   bool ok = false;
   if (t.kind == PT_ANY1) ok = true;
   else if (t.kind == PT_LIT) ok = fold ? (tolower((unsigned char)ch) == tolower((unsigned char)t.c)) : (ch == t.c);
   else ok = t.set.find(ch) != std::string::npos;
   return ok && PatMatchAt(p, pi + 1, s, si + 1, fold);
}
static inline std::string PatToString(const AFilter & f, bool regexSyntax)
{
   std::string o;
   if (f.patKind == PAT_RANGE) { o = "<"; if (f.patHasLo) o += vh::fmt("%u", f.patLo); if (!(f.patHasLo && f.patHasHi && f.patLo == f.patHi)) { o += "-"; if (f.patHasHi) o += vh::fmt("%u", f.patHi); } o += ">"; return o; }
   if (regexSyntax) o += "^"; else if (f.patNeg) o += "~";
   for (size_t i = 0; i < f.pat.size(); i++) {
      const PTok & t = f.pat[i];
      switch (t.kind) { case PT_LIT: if (strchr(".*?+[](){}|\\^$", t.c)) o += '\\'; o += t.c; break; case PT_ANY1: o += regexSyntax ? "." : "?"; break; case PT_ANYN: o += regexSyntax ? ".*" : "*"; break; default: o += "[" + t.set + "]"; break; }
   }
   if (regexSyntax) o += "$";
   return o;
}

static inline const AVal * FindItem(const AMsg & m, const std::string & field, uint32 idx, uint32 wantTypeCode, const AField ** optField = NULL)
{
   const AField * f = m.Find(field);
   if (optField) *optField = f;
   if (f == NULL) return NULL;
   if (wantTypeCode != B_ANY_TYPE && f->typeCode != wantTypeCode) return NULL;
   if (idx >= f->items.size()) return NULL;
   return &f->items[idx];
}
static inline std::string NativeBytes(int vt, const AVal & v)
{
   char b[8]; size_t n = 0;
   switch (vt) {
      case VT_BOOL: { uint8 x = v.i ? 1 : 0; memcpy(b, &x, 1); n = 1; } break;
      case VT_INT8: { int8 x = (int8)v.i; memcpy(b, &x, 1); n = 1; } break;
      case VT_INT16: { int16 x = (int16)v.i; memcpy(b, &x, 2); n = 2; } break;
      case VT_INT32: { int32 x = (int32)v.i; memcpy(b, &x, 4); n = 4; } break;
      case VT_INT64: { int64 x = (int64)v.i; memcpy(b, &x, 8); n = 8; } break;
      case VT_FLOAT: { float x = v.f[0]; memcpy(b, &x, 4); n = 4; } break;
      case VT_DOUBLE: { double x = v.d; memcpy(b, &x, 8); n = 8; } break;
      default: break;
   }
   return std::string(b, n);
}

// letters -> [xX] classes, in place; false when the pattern has a class or an escaped letter (ToCaseInsensitive's effect on those is not documented)
static inline bool FoldSeq(refwild::Seq & q)
{
   for (size_t i = 0; i < q.size(); i++) {
      refwild::Node & n = q[i];
      if (n.k == refwild::Node::CLASS) return false;
      if (n.k == refwild::Node::GROUP) { for (size_t a = 0; a < n.alts.size(); a++) if (!FoldSeq(n.alts[a])) return false; }
      else if (n.k == refwild::Node::LIT && isalpha(n.c)) { if (n.esc) return false; const unsigned char lo = (unsigned char)tolower(n.c), up = (unsigned char)toupper(n.c); n.k = refwild::Node::CLASS; n.neg = false; n.cls.clear(); n.cls.push_back(refwild::ClassItem(lo, lo)); n.cls.push_back(refwild::ClassItem(up, up)); }
   }
   return true;
}
static inline Tri EvalStringOp(const AFilter & f, const std::string & subject, EvalCtx & c)
{
   uint8 op = f.op; std::string s = subject, v = f.value.s;
   if (op >= 28) return Unspec(c, "string_operator_beyond_enumeration");
   if (op >= 24) {   // wildcard (24), regex (25), wildcard ignorecase (26), regex ignorecase (27)
      if (v.empty()) return Unspec(c, "empty_pattern");   // (SetPattern documents "will not match any strings", the matcher compiles "^()$": StringMatcher is C15's subject, here an empty needle)
      if (f.patKind == PAT_NONE) return Unspec(c, "pattern_outside_generated_grammar");
      const bool fold = (op >= 26);
      if (f.patKind == PAT_WILD) {
         if (!f.wild || (op != 24 && op != 26)) return Unspec(c, "pattern_outside_generated_grammar");
         if (f.wild->numeric) { if (refwild::NumericCorner(*f.wild, s)) return Unspec(c, "numeric_range_corner"); return B2T(refwild::Match(*f.wild, s)); }
         if (f.wild->alts.empty()) return Unspec(c, "empty_pattern");
         if (!fold) return B2T(refwild::Match(*f.wild, s));
         // IGNORECASE = StringMatcher(ToCaseInsensitive(pattern)): every letter becomes the class of its two cases (documented for letters only)
         refwild::Pattern fp = *f.wild; for (size_t i = 0; i < fp.alts.size(); i++) if (!FoldSeq(fp.alts[i])) return Unspec(c, "ignorecase_wildcard_with_class_or_escaped_letter");
         return B2T(refwild::Match(fp, s));
      }
      if (f.patKind == PAT_RANGE) {
         if (s.empty() || s.find_first_not_of("0123456789") != std::string::npos) return T_FALSE;
         if (s.size() > 1 && s[0] == '0') return Unspec(c, "numeric_range_subject_with_leading_zero");
         if (s.size() > 9) return Unspec(c, "numeric_range_subject_beyond_uint32");
         const unsigned long n = strtoul(s.c_str(), NULL, 10);
         return B2T((!f.patHasLo || n >= f.patLo) && (!f.patHasHi || n <= f.patHi));
      }
      const bool r = PatMatchAt(f.pat, 0, s, 0, fold);
      return B2T(f.patNeg ? !r : r);
   }
   if (op >= 12) { if (op <= 16 && (HasFoldAmbiguousChar(s) || HasFoldAmbiguousChar(v))) return Unspec(c, "ignorecase_ordering_of_chars_between_Z_and_a"); s = Lower(s); v = Lower(v); op = (uint8)(op - 12); }
   if (op >= 6 && (s.empty() || v.empty())) return Unspec(c, "empty_needle_or_subject");
   switch (op) {
      case 6: return B2T(StartsW(s, v)); case 7: return B2T(EndsW(s, v)); case 8: return B2T(HasSub(s, v));
      case 9: return B2T(StartsW(v, s)); case 10: return B2T(EndsW(v, s)); case 11: return B2T(HasSub(v, s));
      default: return B2T(ApplyCmpOp(op, CmpBytes(s, v)));
   }
}

static inline Tri Eval(const AFilter & f, const AMsg & m, EvalCtx & c);
static inline Tri EvalAux(const AFilter & f, const AMsg & m, EvalCtx & c)
{
   switch (f.kind) {
      case FK_WHAT: return B2T(m.what >= f.lo && m.what <= f.hi);
      case FK_EXISTS: {
         const AField * fld = NULL; const AVal * it = FindItem(m, f.field, f.index, f.typeCode, &fld);
         if (it == NULL) return T_FALSE;
         if (fld->vt == VT_RAW && it->s.empty()) return Unspec(c, "zero_length_raw_item");
         return T_TRUE; }
      case FK_NUMERIC: {
         const AVal * it = FindItem(m, f.field, f.index, TypeCodeOf(f.vt));
         if (it == NULL) { if (!f.hasDef) return T_FALSE; it = &f.def; }
         if (f.op > 5) return Unspec(c, "numeric_operator_beyond_enumeration");
         AVal v = *it;
         if (f.maskOp != 0) {
            if (f.maskOp > 6) return Unspec(c, "mask_operator_beyond_enumeration");
            if (f.vt >= VT_FLOAT) return Unspec(c, "mask_on_float_double_point_rect");
            if (f.vt == VT_BOOL) {
               const bool a = v.i != 0, k = f.mask.i != 0; bool r = a;
               switch (f.maskOp) { case 1: r = a && k; break; case 2: r = a || k; break; case 3: r = a != k; break; case 4: r = !(a && k); break; case 5: r = !(a || k); break; case 6: r = !(a != k); break; }
               v.i = r ? 1 : 0;
            } else {
               int64_t a = v.i, k = f.mask.i, r = a;
               switch (f.maskOp) { case 1: r = a & k; break; case 2: r = a | k; break; case 3: r = a ^ k; break; case 4: r = ~(a & k); break; case 5: r = ~(a | k); break; case 6: r = ~(a ^ k); break; }
               v.i = SignExt(r, IntBits(f.vt));
            }
         }
         const int cmp = CmpNum(f.vt, v, f.value);
         if (cmp == 2) return Unspec(c, "nan_comparison");
         return B2T(ApplyCmpOp(f.op, cmp)); }
      case FK_STRING: {
         const AVal * it = FindItem(m, f.field, f.index, B_STRING_TYPE);
         if (it == NULL) { if (!f.hasDef) return T_FALSE; it = &f.def; }
         return EvalStringOp(f, it->s, c); }
      case FK_RAW: {
         const AField * fld = NULL; const AVal * it = FindItem(m, f.field, f.index, f.typeCode, &fld);
         std::string bytes;
         if (it) {
            if (fld->vt == VT_RAW) { if (it->s.empty()) return Unspec(c, "zero_length_raw_item"); bytes = it->s; }
            else if (fld->vt <= VT_DOUBLE) bytes = NativeBytes(fld->vt, *it);
            else return Unspec(c, "raw_filter_on_string_point_rect_message_field");
         } else { if (!f.hasDef) return T_FALSE; bytes = f.def.s; }
         if (f.nullValue || f.value.s.empty()) return Unspec(c, "empty_raw_operand");
         if (f.op >= 12) return Unspec(c, "raw_operator_beyond_enumeration");
         const std::string & v = f.value.s;
         if (f.op >= 6 && bytes.empty()) return Unspec(c, "empty_needle_or_subject");
         switch (f.op) {
            case 6: return B2T(StartsW(bytes, v)); case 7: return B2T(EndsW(bytes, v)); case 8: return B2T(HasSub(bytes, v));
            case 9: return B2T(StartsW(v, bytes)); case 10: return B2T(EndsW(v, bytes)); case 11: return B2T(HasSub(v, bytes));
            default: return B2T(ApplyCmpOp(f.op, CmpBytes(bytes, v)));
         } }
      case FK_MESSAGE: {
         const AVal * it = FindItem(m, f.field, f.index, B_MESSAGE_TYPE);
         const AMsg * sub = (it && it->m) ? it->m.get() : NULL; bool usedDefault = false;
         if (sub == NULL) { if (!f.defMsg) return T_FALSE; sub = f.defMsg.get(); usedDefault = true; }
         if (!f.hasChild || f.kids.empty()) return usedDefault ? Unspec(c, "message_filter_default_message_without_child_filter") : T_TRUE;
         return Eval(f.kids[0], *sub, c); }
      case FK_CHILDCOUNT: {
         if (c.node == NULL) return Unspec(c, "node_filter_without_node");
         if (f.op > 5) return Unspec(c, "numeric_operator_beyond_enumeration");
         const int64_t n = (int64_t)c.node->numChildren;
         return B2T(ApplyCmpOp(f.op, n < f.value.i ? -1 : n > f.value.i ? 1 : 0)); }
      case FK_NODENAME: {
         if (c.node == NULL) return Unspec(c, "node_filter_without_node");
         return EvalStringOp(f, c.node->name, c); }
      default: break;
   }
   // combinators: t definite matches, u undetermined children; the result is definite when it is the same for every count in [t, t+u]
   uint32 t = 0, u = 0; const uint32 nk = (uint32)f.kids.size();
   for (uint32 i = 0; i < nk; i++) { const Tri r = Eval(f.kids[i], m, c); if (r == T_TRUE) t++; else if (r == T_UNSPEC) u++; }
   if (f.kind == FK_XOR) { if (u) return T_UNSPEC; return B2T((t & 1) != 0); }
   bool isMax = false; uint32 n = 0;
   switch (f.kind) {
      case FK_MINMATCH: n = f.threshold; break; case FK_AND: n = MUSCLE_NO_LIMIT; break; case FK_OR: n = 0; break;
      case FK_MAXMATCH: n = f.threshold; isMax = true; break; case FK_NAND: n = MUSCLE_NO_LIMIT; isMax = true; break; default: n = 0; isMax = true; break;
   }
   if (nk == 0) return isMax ? T_FALSE : T_TRUE;
   if (!isMax && n == nk) return Unspec(c, "minmatch_threshold_equal_to_child_count");   // "more than n" (never) vs "treated as kids-1 if greater than the number of children"
   const uint32 thr = n < nk - 1 ? n : nk - 1;
   const bool rLo = (t > thr), rHi = (t + u > thr);
   if (rLo != rHi) return T_UNSPEC;
   return B2T(isMax ? !rLo : rLo);
}
static inline Tri Eval(const AFilter & f, const AMsg & m, EvalCtx & c)
{
   const Tri r = EvalAux(f, m, c);
   if (f.kind >= 0 && f.kind < NUM_FK) { if (r == T_TRUE) c.leafTrue[f.kind]++; else if (r == T_FALSE) c.leafFalse[f.kind]++; else c.leafUnspec[f.kind]++; }
   return r;
}

// ---------------------------------------------------------------------------------------------------------------- bridges to the real library
static inline void HarnessAbort(const std::string & why) { fprintf(stderr, "HARNESS-ABORT: %s\n", why.c_str()); fflush(stderr); abort(); }
static inline ConstByteBufferRef BytesRef(const std::string & s) { ByteBufferRef b = GetByteBufferFromPool((uint32)s.size(), (const uint8 *)s.data()); if (b() == NULL) HarnessAbort("GetByteBufferFromPool failed"); return b; }

static inline MessageRef BuildMessage(const AMsg & a)
{
   MessageRef m = GetMessageFromPool(a.what);
   if (m() == NULL) HarnessAbort("GetMessageFromPool failed");
   for (size_t fi = 0; fi < a.fields.size(); fi++) {
      const AField & f = a.fields[fi]; const String n(f.name.c_str());
      for (size_t k = 0; k < f.items.size(); k++) {
         const AVal & v = f.items[k]; status_t r;
         switch (f.vt) {
            case VT_BOOL: r = m()->AddBool(n, v.i != 0); break;
            case VT_INT8: r = m()->AddInt8(n, (int8)v.i); break;
            case VT_INT16: r = m()->AddInt16(n, (int16)v.i); break;
            case VT_INT32: r = m()->AddInt32(n, (int32)v.i); break;
            case VT_INT64: r = m()->AddInt64(n, (int64)v.i); break;
            case VT_FLOAT: r = m()->AddFloat(n, v.f[0]); break;
            case VT_DOUBLE: r = m()->AddDouble(n, v.d); break;
            case VT_POINT: r = m()->AddPoint(n, Point(v.f[0], v.f[1])); break;
            case VT_RECT: r = m()->AddRect(n, Rect(v.f[0], v.f[1], v.f[2], v.f[3])); break;
            case VT_STRING: r = m()->AddString(n, String(v.s.c_str())); break;
            case VT_RAW:
               if (v.s.empty()) { if (f.typeCode != B_RAW_TYPE) HarnessAbort("zero-length item of a custom type"); ByteBufferRef e = GetByteBufferFromPool(0); r = m()->AddFlat(n, e); }
               else r = m()->AddData(n, f.typeCode, v.s.data(), (uint32)v.s.size());
               break;
            case VT_MESSAGE: { MessageRef sub = BuildMessage(v.m ? *v.m : AMsg()); r = m()->AddMessage(n, sub); } break;
            default: HarnessAbort("unknown abstract type"); break;
         }
         if (r.IsError()) HarnessAbort(std::string("building the test Message failed at field '") + f.name + "': " + r());
      }
      uint32 tc = 0, cnt = 0;
      if (!f.items.empty() && (m()->GetInfo(n, &tc, &cnt).IsError() || cnt != f.items.size() || tc != f.typeCode)) HarnessAbort("test Message field does not hold what was added: " + f.name);
   }
   return m;
}

template<class QF, class T> static inline QueryFilterRef MkNumeric(const AFilter & f, const T & v, const T & mk, const T & d)
{
   QF * q = f.hasDef ? new QF(String(f.field.c_str()), f.op, v, f.index, d) : new QF(String(f.field.c_str()), f.op, v, f.index);
   if (f.maskOp) q->SetMask(f.maskOp, mk);
   return QueryFilterRef(q);
}
static inline QueryFilterRef BuildFilter(const AFilter & f)
{
   const String fn(f.field.c_str());
   switch (f.kind) {
      case FK_WHAT: return QueryFilterRef((f.lo == f.hi && (f.lo & 1)) ? new WhatCodeQueryFilter(f.lo) : new WhatCodeQueryFilter(f.lo, f.hi));
      case FK_EXISTS: return QueryFilterRef(new ValueExistsQueryFilter(fn, f.typeCode, f.index));
      case FK_NUMERIC:
         switch (f.vt) {
            case VT_BOOL: return MkNumeric<BoolQueryFilter, bool>(f, f.value.i != 0, f.mask.i != 0, f.def.i != 0);
            case VT_INT8: return MkNumeric<Int8QueryFilter, int8>(f, (int8)f.value.i, (int8)f.mask.i, (int8)f.def.i);
            case VT_INT16: return MkNumeric<Int16QueryFilter, int16>(f, (int16)f.value.i, (int16)f.mask.i, (int16)f.def.i);
            case VT_INT32: return MkNumeric<Int32QueryFilter, int32>(f, (int32)f.value.i, (int32)f.mask.i, (int32)f.def.i);
            case VT_INT64: return MkNumeric<Int64QueryFilter, int64>(f, (int64)f.value.i, (int64)f.mask.i, (int64)f.def.i);
            case VT_FLOAT: return MkNumeric<FloatQueryFilter, float>(f, f.value.f[0], f.mask.f[0], f.def.f[0]);
            case VT_DOUBLE: return MkNumeric<DoubleQueryFilter, double>(f, f.value.d, f.mask.d, f.def.d);
            case VT_POINT: return MkNumeric<PointQueryFilter, Point>(f, Point(f.value.f[0], f.value.f[1]), Point(f.mask.f[0], f.mask.f[1]), Point(f.def.f[0], f.def.f[1]));
            case VT_RECT: return MkNumeric<RectQueryFilter, Rect>(f, Rect(f.value.f[0], f.value.f[1], f.value.f[2], f.value.f[3]), Rect(f.mask.f[0], f.mask.f[1], f.mask.f[2], f.mask.f[3]), Rect(f.def.f[0], f.def.f[1], f.def.f[2], f.def.f[3]));
            default: HarnessAbort("numeric filter of a non-numeric type"); break;
         }
         break;
      case FK_STRING: return QueryFilterRef(f.hasDef ? new StringQueryFilter(fn, f.op, String(f.value.s.c_str()), f.index, String(f.def.s.c_str())) : new StringQueryFilter(fn, f.op, String(f.value.s.c_str()), f.index));
      case FK_RAW: {
         ConstByteBufferRef v; if (!f.nullValue) v = BytesRef(f.value.s);
         return QueryFilterRef(f.hasDef ? new RawDataQueryFilter(fn, f.op, v, f.typeCode, f.index, BytesRef(f.def.s)) : new RawDataQueryFilter(fn, f.op, v, f.typeCode, f.index)); }
      case FK_MESSAGE: {
         ConstQueryFilterRef kid; if (f.hasChild && !f.kids.empty()) kid = BuildFilter(f.kids[0]);
         ConstMessageRef dm; if (f.defMsg) dm = BuildMessage(*f.defMsg);
         return QueryFilterRef(new MessageQueryFilter(kid, dm, fn, f.index)); }
      case FK_CHILDCOUNT: return QueryFilterRef(new ChildCountQueryFilter(f.op, (int32)f.value.i));
      case FK_NODENAME: return QueryFilterRef(new NodeNameQueryFilter(f.op, String(f.value.s.c_str())));
      default: break;
   }
   if (!IsMulti(f.kind)) HarnessAbort("unknown abstract filter kind");
   Queue<ConstQueryFilterRef> k; for (size_t i = 0; i < f.kids.size(); i++) (void)k.AddTail(BuildFilter(f.kids[i]));
   MultiQueryFilter * q = NULL; const uint32 nk = k.GetNumItems();
   // the convenience constructors for 1..3 children are used where the class has them, GetChildren().AddTail() otherwise
   switch (f.kind) {
      case FK_MINMATCH: q = new MinimumThresholdQueryFilter(f.threshold); break;
      case FK_MAXMATCH: q = new MaximumThresholdQueryFilter(f.threshold); break;
      case FK_AND: q = nk == 1 ? new AndQueryFilter(k[0]) : nk == 2 ? new AndQueryFilter(k[0], k[1]) : nk == 3 ? new AndQueryFilter(k[0], k[1], k[2]) : new AndQueryFilter; if (nk >= 1 && nk <= 3) k.Clear(); break;
      case FK_OR: q = nk == 1 ? new OrQueryFilter(k[0]) : nk == 2 ? new OrQueryFilter(k[0], k[1]) : nk == 3 ? new OrQueryFilter(k[0], k[1], k[2]) : new OrQueryFilter; if (nk >= 1 && nk <= 3) k.Clear(); break;
      case FK_NAND: q = nk == 1 ? new NandQueryFilter(k[0]) : nk == 2 ? new NandQueryFilter(k[0], k[1]) : new NandQueryFilter; if (nk >= 1 && nk <= 2) k.Clear(); break;
      case FK_NOR: q = nk == 1 ? new NorQueryFilter(k[0]) : nk == 2 ? new NorQueryFilter(k[0], k[1]) : new NorQueryFilter; if (nk >= 1 && nk <= 2) k.Clear(); break;
      default: q = nk == 2 ? new XorQueryFilter(k[0], k[1]) : nk == 3 ? new XorQueryFilter(k[0], k[1], k[2]) : new XorQueryFilter; if (nk >= 2 && nk <= 3) k.Clear(); break;
   }
   for (uint32 i = 0; i < k.GetNumItems(); i++) if (q->GetChildren().AddTail(k[i]).IsError()) HarnessAbort("AddTail(child filter) failed");
   if (q->GetChildren().GetNumItems() != nk) HarnessAbort("child filter count");
   return QueryFilterRef(q);
}

#ifndef REFFILTER_NO_DATANODE
// DataNode::Init() is private; the documented way to obtain a node is StorageReflectSession::GetNewDataNode() (protected, static)
struct NodeMaker : public StorageReflectSession { static DataNodeRef Make(const String & name) { return GetNewDataNode(name, GetEmptyMessageRef()); } };
static inline DataNodeRef BuildNode(const ANode & a)
{
   DataNodeRef n = NodeMaker::Make(String(a.name.c_str()));
   if (n() == NULL) HarnessAbort("GetNewDataNode failed");
   for (uint32 i = 0; i < a.numChildren; i++) { DataNodeRef c = NodeMaker::Make(String(vh::fmt("kid%u", i).c_str())); if (c() == NULL || n()->PutChild(c, NULL, NULL).IsError()) HarnessAbort("PutChild failed"); }
   if (n()->GetNumChildren() != a.numChildren || std::string(n()->GetNodeName()()) != a.name) HarnessAbort("DataNode does not hold what was put in");
   return n;
}
#endif

// ---------------------------------------------------------------------------------------------------------------- describers (witness text)
static inline std::string ShowBytes(const std::string & s) { bool printable = !s.empty(); for (size_t i = 0; i < s.size(); i++) if (s[i] < 0x20 || s[i] > 0x7e || s[i] == '\'') printable = false; return printable ? ("'" + s + "'") : ("x" + vh::hex(s.data(), s.size(), 24)); }
static inline std::string ShowVal(int vt, const AVal & v);
static inline std::string DescribeMsg(const AMsg & m)
{
   std::string o = vh::fmt("{what=%u", m.what);
   for (size_t i = 0; i < m.fields.size(); i++) {
      const AField & f = m.fields[i]; o += " " + ShowBytes(f.name) + ":" + VTName(f.vt) + (f.vt == VT_RAW && f.typeCode != B_RAW_TYPE ? "(cust)" : "") + "[";
      for (size_t k = 0; k < f.items.size(); k++) { if (k) o += ","; o += ShowVal(f.vt, f.items[k]); }
      o += "]";
   }
   return o + "}";
}
static inline std::string ShowVal(int vt, const AVal & v)
{
   switch (vt) {
      case VT_BOOL: return v.i ? "true" : "false";
      case VT_FLOAT: return vh::fmt("%.9g", (double)v.f[0]);
      case VT_DOUBLE: return vh::fmt("%.17g", v.d);
      case VT_POINT: return vh::fmt("(%.9g,%.9g)", (double)v.f[0], (double)v.f[1]);
      case VT_RECT: return vh::fmt("(%.9g,%.9g,%.9g,%.9g)", (double)v.f[0], (double)v.f[1], (double)v.f[2], (double)v.f[3]);
      case VT_STRING: case VT_RAW: return ShowBytes(v.s);
      case VT_MESSAGE: return v.m ? DescribeMsg(*v.m) : "{}";
      default: return vh::fmt("%lld", (long long)v.i);
   }
}
static inline std::string DescribeFilter(const AFilter & f)
{
   std::string o = FKName(f.kind);
   const std::string at = ShowBytes(f.field) + (f.index ? vh::fmt(":%u", f.index) : std::string());
   switch (f.kind) {
      case FK_WHAT: return o + vh::fmt("[%u..%u]", f.lo, f.hi);
      case FK_EXISTS: return o + "(" + at + vh::fmt(" type=%u)", f.typeCode);
      case FK_NUMERIC: return o + "<" + VTName(f.vt) + ">(" + at + (f.hasDef ? "|" + ShowVal(f.vt, f.def) : std::string()) + (f.maskOp ? vh::fmt(" mask%u ", f.maskOp) + ShowVal(f.vt, f.mask) : std::string()) + vh::fmt(" op%u ", f.op) + ShowVal(f.vt, f.value) + ")";
      case FK_STRING: return o + "(" + at + (f.hasDef ? "|" + ShowBytes(f.def.s) : std::string()) + vh::fmt(" op%u ", f.op) + ShowBytes(f.value.s) + ")";
      case FK_RAW: return o + "(" + at + vh::fmt(" type=%u", f.typeCode) + (f.hasDef ? "|" + ShowBytes(f.def.s) : std::string()) + vh::fmt(" op%u ", f.op) + (f.nullValue ? std::string("NULL") : ShowBytes(f.value.s)) + ")";
      case FK_MESSAGE: return o + "(" + at + (f.defMsg ? " default=" + DescribeMsg(*f.defMsg) : std::string()) + (f.hasChild && !f.kids.empty() ? " child=" + DescribeFilter(f.kids[0]) : std::string(" nochild")) + ")";
      case FK_CHILDCOUNT: return o + vh::fmt("(op%u %lld)", f.op, (long long)f.value.i);
      case FK_NODENAME: return o + vh::fmt("(op%u ", f.op) + ShowBytes(f.value.s) + ")";
      default: break;
   }
   if (f.kind == FK_MINMATCH || f.kind == FK_MAXMATCH) o += vh::fmt("%u", f.threshold);
   o += "{";
   for (size_t i = 0; i < f.kids.size(); i++) { if (i) o += ", "; o += DescribeFilter(f.kids[i]); }
   return o + "}";
}
static inline int FilterDepth(const AFilter & f) { int d = 0; for (size_t i = 0; i < f.kids.size(); i++) { const int k = FilterDepth(f.kids[i]); if (k > d) d = k; } return d + 1; }
static inline int FilterNodes(const AFilter & f) { int n = 1; for (size_t i = 0; i < f.kids.size(); i++) n += FilterNodes(f.kids[i]); return n; }

// ---------------------------------------------------------------------------------------------------------------- generators
typedef vh::Rng Rng;
struct NameInfo { const char * name; int vt; };
// the Beginners Guide's own field names, names embedding every keyword of the expression lexer, and a few names the grammar cannot write
static const NameInfo kNames[] = {
   {"age", VT_INT32}, {"weight", VT_FLOAT}, {"eyecolor", VT_STRING}, {"sober", VT_BOOL}, {"island", VT_INT64}, {"band", VT_INT16}, {"this", VT_INT8}, {"whatever", VT_DOUBLE},
   {"somewhat", VT_POINT}, {"notable", VT_RECT}, {"color", VT_STRING}, {"isle", VT_RAW}, {"android", VT_MESSAGE}, {"numstr", VT_STRING}, {"m", VT_MESSAGE}, {"r", VT_RAW},
   {"", VT_INT32}, {"a:1", VT_INT32}, {"x|3", VT_STRING}, {"two words", VT_STRING} };
enum { NUM_PLAIN_NAMES = 16, NUM_NAMES = 20 };
static inline const NameInfo & PickName(Rng & g, bool weird) { return kNames[(weird && g.R(14) == 0) ? NUM_PLAIN_NAMES + g.R(NUM_NAMES - NUM_PLAIN_NAMES) : g.R(NUM_PLAIN_NAMES)]; }
static inline const NameInfo * LookupName(const std::string & n) { for (int i = 0; i < NUM_NAMES; i++) if (n == kNames[i].name) return &kNames[i]; return NULL; }

static inline float GenFloatVal(Rng & g, bool allowNaN)
{
   static const float pool[] = {0.0f, 0.25f, -0.25f, 1.0f, -1.0f, 1.5f, -2.5f, 18.0f, 21.0f, 21.25f, 100.0f, 150.0f, 155.0f, 155.5f, 4096.75f};
   if (allowNaN && g.R(50) == 0) return std::numeric_limits<float>::quiet_NaN();
   if (g.R(3) == 0) return (float)((int)g.R(13) - 6) * 0.25f;
   return pool[g.R(sizeof(pool) / sizeof(pool[0]))];
}
static inline int64_t GenIntVal(Rng & g, int vt)
{
   if (vt == VT_BOOL) return g.R(2);
   const int bits = IntBits(vt); const int64_t mx = bits == 64 ? INT64_MAX : ((1LL << (bits - 1)) - 1), mn = -mx - 1;
   switch (g.R(10)) {
      case 0: { const int64_t ch[] = {mn, mn + 1, mx, mx - 1, mx / 2 + 1, -(mx / 2)}; return ch[g.R(6)]; }
      case 1: case 2: { static const int64_t p[] = {18, 21, 20, 22, 100, 99, 53, 127, -128, 255, 1234}; return SignExt(p[g.R(11)], bits); }
      case 3: return SignExt((int64_t)g.next(), bits);
      default: return (int64_t)g.R(7) - 3;
   }
}
static inline AVal GenNumVal(Rng & g, int vt, bool allowNaN)
{
   AVal v;
   switch (vt) {
      case VT_FLOAT: v.f[0] = GenFloatVal(g, allowNaN); break;
      case VT_DOUBLE: v.d = (g.R(8) == 0) ? 21.3 : (double)GenFloatVal(g, allowNaN); break;
      case VT_POINT: { static const float p[] = {0.0f, 1.0f, -1.0f, 2.5f}; for (int i = 0; i < 2; i++) v.f[i] = p[g.R(4)]; if (allowNaN && g.R(60) == 0) v.f[g.R(2)] = std::numeric_limits<float>::quiet_NaN(); } break;
      case VT_RECT: { static const float p[] = {0.0f, 1.0f, -1.0f, 2.5f}; for (int i = 0; i < 4; i++) v.f[i] = p[g.R(g.R(3) ? 2 : 4)]; if (allowNaN && g.R(60) == 0) v.f[g.R(4)] = std::numeric_limits<float>::quiet_NaN(); } break;
      default: v.i = GenIntVal(g, vt); break;
   }
   return v;
}
// a value next to (v): dir -1 / 0 / +1
static inline AVal NearNumVal(Rng & g, int vt, const AVal & v, int dir)
{
   AVal r = v; if (dir == 0) return r;
   switch (vt) {
      case VT_BOOL: r.i = v.i ? 0 : 1; break;
      case VT_FLOAT: r.f[0] = g.R(2) ? nextafterf(v.f[0], dir > 0 ? FLT_MAX : -FLT_MAX) : v.f[0] + 0.25f * dir; break;
      case VT_DOUBLE: r.d = g.R(2) ? nextafter(v.d, dir > 0 ? DBL_MAX : -DBL_MAX) : v.d + 0.25 * dir; break;
      case VT_POINT: { const int k = g.R(2); r.f[k] = v.f[k] + 0.5f * dir; } break;
      case VT_RECT: { const int k = g.R(4); r.f[k] = v.f[k] + 0.5f * dir; } break;
      default: { const int bits = IntBits(vt); const int64_t mx = bits == 64 ? INT64_MAX : ((1LL << (bits - 1)) - 1), mn = -mx - 1; if (dir > 0 && v.i < mx) r.i = v.i + 1; else if (dir < 0 && v.i > mn) r.i = v.i - 1; } break;
   }
   return r;
}
static inline std::string GenStr(Rng & g, bool allowEmpty)
{
   static const char * const words[] = {"green", "Green", "GREEN", "blue", "greenish", "dark green", "twenty-one", "twenty", "99", "100", "991", "9", "21", "Zed", "abc", "node1"};
   for (;;) {
      std::string s;
      if (g.R(5) < 2) s = words[g.R(sizeof(words) / sizeof(words[0]))];
      else { static const char al[] = "aAbB"; const uint32 n = g.R(5); for (uint32 i = 0; i < n; i++) s.push_back(al[g.R(4)]); }
      if (!s.empty() || (allowEmpty && g.R(3) == 0)) return s;
   }
}
static inline std::string GenBytes(Rng & g, bool allowEmpty)
{
   static const unsigned char al[] = {0x00, 0x01, 'a', 'b', 0x7f, 0x80, 0xff};
   std::string s; const uint32 n = allowEmpty ? g.R(5) : 1 + g.R(4);
   for (uint32 i = 0; i < n; i++) s.push_back((char)al[g.R(g.R(3) ? 4 : 7)]);
   return s;
}
// a string / byte sequence related to (v): equal, case-toggled, shortened, extended at either end, embedded, neighbour in the ordering
static inline std::string NearStr(Rng & g, const std::string & v, bool bytes)
{
   std::string s = v;
   switch (g.R(10)) {
      case 0: case 1: break;
      case 2: if (!bytes) { for (size_t i = 0; i < s.size(); i++) if (isalpha((unsigned char)s[i]) && g.R(2)) s[i] = (char)(s[i] ^ 0x20); } else if (!s.empty()) s[g.R((uint32)s.size())] ^= 0x20; break;
      case 3: if (!s.empty()) s.resize(s.size() - 1); break;
      case 4: if (!s.empty()) s.erase(0, 1); break;
      case 5: s += bytes ? GenBytes(g, false).substr(0, 1) : std::string(1, "aAbB"[g.R(4)]); break;
      case 6: s = (bytes ? GenBytes(g, false).substr(0, 1) : std::string(1, "aAbB"[g.R(4)])) + s; break;
      case 7: s = (bytes ? std::string("a") : std::string("b")) + s + (bytes ? std::string("\x01", 1) : std::string("A")); break;
      case 8: if (!s.empty()) { char & c = s[s.size() - 1]; if (bytes) c = (char)(c + (g.R(2) ? 1 : -1)); else if (isalnum((unsigned char)c) && isalnum((unsigned char)(c + 1))) c = (char)(c + 1); } break;
      default: s = bytes ? GenBytes(g, false) : GenStr(g, false); break;
   }
   if (!bytes) for (size_t i = 0; i < s.size(); i++) if (s[i] == 0) s[i] = 'a';
   return s;
}
// a subject for a generated pattern: a string the AST matches (then sometimes damaged)
static inline std::string SamplePattern(Rng & g, const AFilter & f)
{
   if (f.patKind == PAT_WILD && f.wild) {
      const refwild::Pattern & p = *f.wild;
      if (p.numeric) {
         if (p.ranges.empty()) return "0";
         const refwild::NumRange & r = p.ranges[g.R((uint32)p.ranges.size())]; const uint64_t lo = r.hasLo ? r.lo : 0, hi = r.hasHi ? r.hi : lo + 40;
         switch (g.R(8)) { case 0: return vh::fmt("%llu", (unsigned long long)lo); case 1: return vh::fmt("%llu", (unsigned long long)hi); case 2: return vh::fmt("%llu", (unsigned long long)(lo ? lo - 1 : 0)); case 3: return vh::fmt("%llu", (unsigned long long)(hi + 1)); case 4: return vh::fmt("%llua", (unsigned long long)lo); case 5: return f.value.s; case 6: return vh::fmt("0%llu", (unsigned long long)lo); default: return vh::fmt("%llu", (unsigned long long)(lo + g.R((uint32)(hi >= lo ? hi - lo + 1 : 1)))); }
      }
      if (p.alts.empty()) return GenStr(g, true);
      std::string s; refwild::SampleSeq(p.alts[g.R((uint32)p.alts.size())], s, g, std::string("aAbB9*"), 2);   // a string the pattern denotes (for an escape-only pattern: the unescaped text)
      switch (g.R(9)) {
         case 0: case 1: return f.value.s;                 // the pattern text itself (differs from what it denotes as soon as it holds an escape or a wildcard)
         case 2: return NearStr(g, s, false);              // near miss
         case 3: for (size_t i = 0; i < s.size(); i++) if (isalpha((unsigned char)s[i]) && g.R(2)) s[i] = (char)(s[i] ^ 0x20); return s;
         case 4: { std::string t = f.value.s; if (!t.empty() && t[0] == '~') t.erase(0, 1); return t; }
         default: for (size_t i = 0; i < s.size(); i++) if (s[i] == 0) s[i] = 'a'; return s;
      }
   }
   if (f.patKind == PAT_RANGE) {
      const uint32 lo = f.patHasLo ? f.patLo : 0, hi = f.patHasHi ? f.patHi : lo + 40;
      switch (g.R(7)) { case 0: return vh::fmt("%u", lo); case 1: return vh::fmt("%u", hi); case 2: return vh::fmt("%u", lo ? lo - 1 : 0); case 3: return vh::fmt("%u", hi + 1); case 4: return vh::fmt("%ua", lo); case 5: return GenStr(g, false); default: return vh::fmt("%u", lo + g.R(hi - lo + 1)); }
   }
   std::string s;
   for (size_t i = 0; i < f.pat.size(); i++) {
      const PTok & t = f.pat[i];
      switch (t.kind) { case PT_LIT: s += t.c; break; case PT_ANY1: s += "aAbB9"[g.R(5)]; break; case PT_ANYN: { const uint32 n = g.R(3); for (uint32 k = 0; k < n; k++) s += "aAbB"[g.R(4)]; } break; default: s += t.set.empty() ? 'a' : t.set[g.R((uint32)t.set.size())]; break; }
   }
   switch (g.R(6)) { case 0: return NearStr(g, s, false); case 1: for (size_t i = 0; i < s.size(); i++) if (isalpha((unsigned char)s[i]) && g.R(2)) s[i] = (char)(s[i] ^ 0x20); return s; default: return s; }
}

struct GenOptions {
   int maxDepth;            // filter tree depth (design: <= 5)
   bool nodeKinds;          // child-count and node-name filters
   bool weirdNames;         // field names the expression grammar cannot write ("", "a:1", "x|3", "two words")
   uint32 unspecOneIn;      // about one leaf in this many gets a documented-as-unspecified feature (operator beyond the enumeration, NaN, empty needle, mask on float ...); 0 = never
   bool exprFriendly;       // only leaves, child counts and thresholds that the documented expression grammar can write (ToExpression succeeds on the whole tree)
   GenOptions() : maxDepth(5), nodeKinds(true), weirdNames(true), unspecOneIn(25), exprFriendly(false) {}
};
static inline bool Odd(Rng & g, const GenOptions & o) { return o.unspecOneIn && g.R(o.unspecOneIn) == 0; }

// a sequence of the documented simple syntax.  style 0: plain literals; 1: literals incl. escaped metacharacters, no live wildcard; 2: escaped
// metacharacters AND live wildcards; 3: live wildcards, no escapes
static inline refwild::Seq GenWildSeq(Rng & g, int style, bool allowClass, int depth)
{
   using refwild::Node;
   refwild::Seq q; const uint32 n = 1 + g.R(5); bool haveMeta = false, haveWild = false;
   for (uint32 i = 0; i < n || (style == 1 && !haveMeta) || (style == 2 && (!haveMeta || !haveWild)); i++) {
      if (q.size() > 9) break;
      const bool wantMeta = (style == 1 || style == 2) && (g.R(3) == 0 || (i + 1 >= n && !haveMeta));
      const bool wantWild = (style == 2 || style == 3) && !wantMeta && (g.R(3) == 0 || (i + 1 >= n && !haveWild));
      if (wantMeta) { static const char meta[] = "*?,()[]|\\{}^$<~`"; q.push_back(Node::Lit((unsigned char)meta[g.R(sizeof(meta) - 1)])); haveMeta = true; }   // (< ~ ` need their backslash only in first position: the printer knows)
      else if (wantWild) {
         const uint32 r = g.R(allowClass ? 10 : 7);
         if (r < 3) { if (!q.empty() && q.back().k == Node::STAR) q.push_back(Node::Any1()); else q.push_back(Node::Star()); }
         else if (r < 5) q.push_back(Node::Any1());
         else if (r < 7) { if (depth >= 1) q.push_back(Node::Any1()); else { Node x; x.k = Node::GROUP; const uint32 na = 2 + g.R(2); for (uint32 a = 0; a < na; a++) x.alts.push_back((a + 1 == na && g.R(4) == 0) ? refwild::Seq() : GenWildSeq(g, g.R(3) ? 0 : style, allowClass, depth + 1)); q.push_back(x); } }
         else { Node x; x.k = Node::CLASS; x.neg = g.R(5) == 0; switch (g.R(4)) { case 0: x.cls.push_back(refwild::ClassItem('a', 'c')); break; case 1: x.cls.push_back(refwild::ClassItem('a', 'a')); x.cls.push_back(refwild::ClassItem('B', 'B')); break; case 2: x.cls.push_back(refwild::ClassItem('0', '9')); break; default: x.cls.push_back(refwild::ClassItem('A', 'B')); x.cls.push_back(refwild::ClassItem('9', '9')); break; } q.push_back(x); }
         haveWild = true;
      }
      else { static const char plain[] = "aAbBgrn9-. "; const unsigned char ch = (unsigned char)plain[g.R(g.R(4) ? 8 : 11)]; q.push_back(Node::Lit(ch, !isalnum(ch) && g.R(4) == 0)); }
   }
   return q;
}
static inline void GenWildPattern(Rng & g, AFilter & f)
{
   const bool fold = (f.op == 26);
   std::shared_ptr<refwild::Pattern> p(new refwild::Pattern);
   const uint32 r = g.R(14);
   if (r == 0) {   // <ranges>
      p->numeric = true; const uint32 nr = 1 + (g.R(3) == 0 ? g.R(3) : 0);
      for (uint32 i = 0; i < nr; i++) { refwild::NumRange x; x.lo = g.R(30); x.hi = x.lo + g.R(12); x.hasLo = g.R(5) != 0; x.hasHi = g.R(5) != 0; if (!x.hasLo && !x.hasHi && g.R(4)) x.hasLo = true; if (g.R(5) == 0) { x.hasLo = x.hasHi = true; x.hi = x.lo; } p->ranges.push_back(x); }
   } else {
      const int style = r < 5 ? 1 : r < 9 ? 2 : r < 12 ? 3 : 0;   // escape-only patterns are as frequent as the others: a matcher short-cut for "unique" patterns must unescape
      const uint32 na = g.R(6) == 0 ? 2 + g.R(2) : 1;
      for (uint32 a = 0; a < na; a++) p->alts.push_back(GenWildSeq(g, a == 0 ? style : (int)g.R(4), !fold, 0));
      p->negate = g.R(7) == 0;
   }
   f.wild = p; f.patKind = PAT_WILD; f.pat.clear(); f.patNeg = false; f.value.s = refwild::Print(*p);
}
// classification of a PAT_WILD operand (observation counters): 1 = escapes only (no live wildcard), 2 = escapes and live wildcards, 3 = wildcards only, 0 = plain text
static inline bool SeqHasEscape(const refwild::Seq & q) { for (size_t i = 0; i < q.size(); i++) { if (q[i].k == refwild::Node::LIT && (q[i].esc || refwild::NeedsEscapeAnywhere(q[i].c))) return true; for (size_t a = 0; a < q[i].alts.size(); a++) if (SeqHasEscape(q[i].alts[a])) return true; } return false; }
static inline bool SeqHasWildcard(const refwild::Seq & q) { for (size_t i = 0; i < q.size(); i++) if (q[i].k != refwild::Node::LIT) return true; return false; }
static inline int WildOperandClass(const AFilter & f)
{
   if (f.patKind != PAT_WILD || !f.wild || f.wild->numeric) return -1;
   bool esc = false, wild = f.wild->alts.size() > 1;
   for (size_t i = 0; i < f.wild->alts.size(); i++) { if (SeqHasEscape(f.wild->alts[i])) esc = true; if (SeqHasWildcard(f.wild->alts[i])) wild = true; }
   std::string lit; if (!esc && refwild::IsPureLiteral(*f.wild, &lit) && refwild::Print(*f.wild) != lit) esc = true;   // first-position escapes of < ~ `
   return esc ? (wild ? 2 : 1) : (wild ? 3 : 0);
}
static inline void GenPattern(Rng & g, AFilter & f, const GenOptions & o)
{
   if ((f.op == 24 || f.op == 26) && g.R(5) != 0) { GenWildPattern(g, f); if (Odd(g, o) && g.R(3) == 0) { f.value.s.clear(); f.patKind = PAT_NONE; f.wild.reset(); } return; }
   const bool regexSyntax = (f.op == 25 || f.op == 27), fold = (f.op >= 26);
   f.pat.clear(); f.patNeg = false; f.patKind = PAT_GLOB;
   if (!regexSyntax && g.R(6) == 0) {   // numeric range "<lo-hi>" (simple syntax only; no letters, so the IGNORECASE variant is the same pattern)
      f.patKind = PAT_RANGE; f.patLo = g.R(30); f.patHi = f.patLo + g.R(12); f.patHasLo = g.R(5) != 0; f.patHasHi = g.R(5) != 0;
      if (!f.patHasLo && !f.patHasHi) f.patHasLo = true;
   } else {
      const uint32 n = 1 + g.R(5);
      for (uint32 i = 0; i < n; i++) {
         PTok t; const uint32 r = g.R(10);
         if (r < 5) { t.kind = PT_LIT; t.c = (!fold && g.R(6) == 0) ? "*.?[$"[g.R(5)] : "aAbBgrn9"[g.R(8)]; }   // (a metacharacter as a literal is printed with its backslash)
         else if (r < 7) t.kind = PT_ANY1;
         else if (r < 9) { if (!f.pat.empty() && f.pat.back().kind == PT_ANYN) { t.kind = PT_ANY1; } else t.kind = PT_ANYN; }
         else if (!fold) { t.kind = PT_CLASS; t.set = g.R(2) ? "ab" : (g.R(2) ? "aA9" : "Bb"); }
         else { t.kind = PT_LIT; t.c = "aAbB"[g.R(4)]; }
         f.pat.push_back(t);
      }
      if (!regexSyntax && g.R(6) == 0) f.patNeg = true;   // "~" negates a simple pattern
   }
   f.value.s = PatToString(f, regexSyntax);
   if (Odd(g, o) && g.R(3) == 0) { f.value.s.clear(); f.patKind = PAT_NONE; f.pat.clear(); }   // empty pattern (an unspecified corner, counted)
}

static inline AFilter GenLeafAny(Rng & g, const GenOptions & o)
{
   AFilter f; const NameInfo & ni = PickName(g, o.weirdNames); f.field = ni.name;
   f.index = g.R(3) == 0 ? 1 + g.R(3) : 0; if (g.R(40) == 0) f.index = g.R(2) ? 0xFFFFFFFFu : 1000000;
   int kindVt = ni.vt; if (g.R(7) == 0) kindVt = g.R(NUM_VT);   // mostly the filter kind that fits the name's usual type
   const uint32 r = g.R(100);
   if (r < 8) { f.kind = FK_WHAT; static const uint32 w[] = {0, 1, 2, 5, 1234, 666, 0x7FFFFFFFu, 0x80000000u, 0xFFFFFFFEu, 0xFFFFFFFFu}; f.lo = w[g.R(10)]; switch (g.R(5)) { case 0: f.hi = MUSCLE_NO_LIMIT; break; case 1: f.hi = f.lo; f.lo = 0; break; case 2: f.hi = f.lo + g.R(4); if (f.hi < f.lo) f.hi = MUSCLE_NO_LIMIT; break; case 3: f.hi = w[g.R(10)]; break; default: f.hi = f.lo; break; } return f; }
   if (r < 18) { f.kind = FK_EXISTS; f.typeCode = g.R(3) == 0 ? B_ANY_TYPE : (kindVt == VT_RAW && g.R(3) == 0) ? (uint32)CUSTOM_RAW_TYPE : TypeCodeOf(g.R(5) == 0 ? (int)g.R(NUM_VT) : kindVt); return f; }
   if (o.nodeKinds && r < 22) { f.kind = FK_CHILDCOUNT; f.field.clear(); f.index = 0; f.op = (uint8)g.R(6); f.value.i = (int64_t)g.R(4); if (Odd(g, o)) f.op = (uint8)(6 + g.R(250)); return f; }
   if (o.nodeKinds && r < 26) { f.kind = FK_NODENAME; f.field.clear(); f.index = 0; f.op = (uint8)g.R(24); static const char * const nn[] = {"node1", "Zed", "abc", "NODE1", "node", "1", "b"}; f.value.s = g.R(3) ? nn[g.R(7)] : GenStr(g, false); if (g.R(5) == 0) { f.op = (uint8)(24 + g.R(4)); GenPattern(g, f, o); } return f; }
   if (kindVt < NUM_NUMERIC_VT) {
      f.kind = FK_NUMERIC; f.vt = kindVt; f.op = (uint8)g.R(6); f.value = GenNumVal(g, f.vt, false);
      if (g.R(3) == 0) { f.hasDef = true; f.def = g.R(2) ? NearNumVal(g, f.vt, f.value, (int)g.R(3) - 1) : GenNumVal(g, f.vt, false); }
      if (f.vt <= VT_INT64 && g.R(3) == 0) { f.maskOp = (uint8)(1 + g.R(6)); f.mask = GenNumVal(g, f.vt, false); if (f.vt != VT_BOOL && g.R(2)) f.mask.i = SignExt((int64_t)(g.R(2) ? 0xFF : 0x3) << (g.R(3) * 4), IntBits(f.vt)); }
      if (Odd(g, o)) switch (g.R(4)) {
         case 0: f.op = (uint8)(6 + g.R(250)); break;
         case 1: f.maskOp = (uint8)(7 + g.R(249)); f.mask = GenNumVal(g, f.vt, false); break;
         case 2: if (f.vt >= VT_FLOAT) { f.maskOp = (uint8)(1 + g.R(6)); f.mask = GenNumVal(g, f.vt, false); } break;
         default: if (f.vt >= VT_FLOAT) { AVal & nv = g.R(2) ? f.value : f.def; if (&nv == &f.def) f.hasDef = true; const float qn = std::numeric_limits<float>::quiet_NaN(); if (f.vt == VT_DOUBLE) nv.d = qn; else nv.f[f.vt == VT_FLOAT ? 0 : g.R(f.vt == VT_POINT ? 2 : 4)] = qn; } break;
      }
      return f;
   }
   if (kindVt == VT_STRING) {
      f.kind = FK_STRING; f.op = (uint8)g.R(24); f.value.s = GenStr(g, false);
      if (g.R(6) == 0) { f.op = (uint8)(24 + g.R(4)); GenPattern(g, f, o); }
      if (g.R(3) == 0) { f.hasDef = true; f.def.s = (f.op >= 24) ? SamplePattern(g, f) : (g.R(2) ? NearStr(g, f.value.s, false) : GenStr(g, false)); }
      if (Odd(g, o)) switch (g.R(3)) { case 0: f.op = (uint8)(28 + g.R(228)); break; case 1: if (f.op < 24) f.value.s.clear(); break; default: f.hasDef = true; f.def.s.clear(); break; }
      return f;
   }
   if (kindVt == VT_RAW) {
      f.kind = FK_RAW; f.op = (uint8)g.R(12); f.value.s = GenBytes(g, false);
      switch (g.R(6)) { case 0: case 1: f.typeCode = B_ANY_TYPE; break; case 2: f.typeCode = CUSTOM_RAW_TYPE; break; case 3: if (g.R(3) == 0) { f.typeCode = B_INT32_TYPE; f.field = "age"; f.value.s = NativeBytes(VT_INT32, GenNumVal(g, VT_INT32, false)); if (g.R(2)) f.value.s.resize(1 + g.R(4)); break; } /* fall through */ default: f.typeCode = B_RAW_TYPE; break; }
      if (g.R(3) == 0) { f.hasDef = true; f.def.s = g.R(2) ? NearStr(g, f.value.s, true) : GenBytes(g, false); }
      if (Odd(g, o)) switch (g.R(4)) { case 0: f.op = (uint8)(12 + g.R(244)); break; case 1: f.value.s.clear(); f.nullValue = g.R(2) != 0; break; case 2: f.hasDef = true; f.def.s.clear(); break; default: f.typeCode = B_ANY_TYPE; f.field = g.R(2) ? "eyecolor" : "somewhat"; break; }
      if (f.hasDef && f.def.s.empty() && g.R(2) == 0) { /* the F22 shape: an empty assumed default stays (comparison operators are specified on it) */ }
      return f;
   }
   // message-kind name at leaf position: existence test on the sub-Message
   f.kind = FK_EXISTS; f.typeCode = g.R(2) ? B_MESSAGE_TYPE : B_ANY_TYPE; return f;
}

static inline bool ExprLeaf(const AFilter & f, std::string & o, Rng & g);
static inline AFilter GenLeaf(Rng & g, const GenOptions & o)
{
   if (!o.exprFriendly) return GenLeafAny(g, o);
   GenOptions o2 = o; o2.nodeKinds = false; o2.weirdNames = false; o2.unspecOneIn = 0;
   for (int tries = 0; tries < 200; tries++) { AFilter f = GenLeafAny(g, o2); std::string t; Rng r(1); if (ExprLeaf(f, t, r)) return f; }
   AFilter f; f.kind = FK_NUMERIC; f.field = "age"; f.vt = VT_INT32; f.op = 4; f.value.i = 21; return f;
}
static inline AMsgRef GenRandomMessage(Rng & g, int depth, const GenOptions & o);
static inline AFilter GenFilter(Rng & g, const GenOptions & o, int depth = 0)
{
   const bool mustLeaf = depth + 1 >= o.maxDepth;
   const uint32 r = mustLeaf ? 0 : g.R(100);
   const uint32 leafShare = depth == 0 ? 25 : depth == 1 ? 50 : 65;
   if (r < leafShare) return GenLeaf(g, o);
   AFilter f;
   if (r < leafShare + 10 && !o.exprFriendly) {
      f.kind = FK_MESSAGE; f.field = g.R(3) ? (g.R(2) ? "m" : "android") : PickName(g, o.weirdNames).name; f.index = g.R(4) == 0 ? 1 + g.R(2) : 0;
      f.hasChild = g.R(5) != 0; if (f.hasChild) f.kids.push_back(GenFilter(g, o, depth + 1));
      if (g.R(3) == 0) f.defMsg = GenRandomMessage(g, 2, o);
      return f;
   }
   static const int mk[] = {FK_MINMATCH, FK_MINMATCH, FK_MAXMATCH, FK_MAXMATCH, FK_AND, FK_OR, FK_NAND, FK_NOR, FK_XOR, FK_XOR};
   f.kind = mk[g.R(10)];
   uint32 nk; { const uint32 q = g.R(24); nk = q == 0 ? 0 : q < 4 ? 1 : q < 12 ? 2 : q < 18 ? 3 : q < 22 ? 4 : 5 + g.R(2); }
   for (uint32 i = 0; i < nk; i++) f.kids.push_back(GenFilter(g, o, depth + 1));
   if (o.exprFriendly && nk == 0) { nk = 2; for (uint32 i = 0; i < nk; i++) f.kids.push_back(GenFilter(g, o, depth + 1)); }
   if (f.kind == FK_MINMATCH || f.kind == FK_MAXMATCH) {
      f.threshold = g.R(6) == 0 ? MUSCLE_NO_LIMIT : g.R(nk + 2);   // 0 .. n+1 and NO_LIMIT
      if (f.kind == FK_MINMATCH && f.threshold == nk && g.R(3)) f.threshold = g.R(nk + 2);   // (the threshold == child count corner of Min is unspecified: keep it rarer)
      if (o.exprFriendly) { const uint32 ch[] = {0, nk - 1, nk + 1, MUSCLE_NO_LIMIT}; f.threshold = ch[g.R(4)]; }
   }
   return f;
}

static inline void FillItems(Rng & g, AField & fld, uint32 count, int depth, const GenOptions & o)
{
   for (uint32 i = 0; i < count; i++) {
      AVal v;
      switch (fld.vt) {
         case VT_STRING: v.s = GenStr(g, true); break;
         case VT_RAW: v.s = GenBytes(g, false); break;
         case VT_MESSAGE: v.m = GenRandomMessage(g, depth + 1, o); break;
         default: v = GenNumVal(g, fld.vt, false); break;
      }
      fld.items.push_back(v);
   }
}
static inline AMsgRef GenRandomMessage(Rng & g, int depth, const GenOptions & o)
{
   AMsgRef m(new AMsg); static const uint32 w[] = {0, 1, 2, 5, 1234, 666, 1233, 0xFFFFFFFFu}; m->what = w[g.R(8)];
   const uint32 nf = depth >= 3 ? 0 : g.R(depth == 0 ? 6 : 4);
   for (uint32 i = 0; i < nf; i++) {
      const NameInfo & ni = PickName(g, o.weirdNames); int vt = g.R(8) == 0 ? (int)g.R(NUM_VT) : ni.vt; if (vt == VT_MESSAGE && depth >= 2) vt = VT_INT32;
      AField & f = m->Set(ni.name, vt, (vt == VT_RAW && g.R(4) == 0) ? (uint32)CUSTOM_RAW_TYPE : TypeCodeOf(vt));
      FillItems(g, f, 1 + (g.R(3) == 0 ? g.R(4) : 0), depth, o);
   }
   return m;
}

struct ShapeStats { long missing, wrongType, tooShort, equal, near, random, zeroLen; ShapeStats() : missing(0), wrongType(0), tooShort(0), equal(0), near(0), random(0), zeroLen(0) {} };
static inline void Steer(Rng & g, const AFilter & f, AMsg & m, int depth, const GenOptions & o, ShapeStats & st);
// rewrites the field a value filter looks at into one of the adversarial shapes
static inline void ShapeField(Rng & g, const AFilter & f, AMsg & m, int depth, const GenOptions & o, ShapeStats & st)
{
   int vt; uint32 tc;
   switch (f.kind) {
      case FK_NUMERIC: vt = f.vt; tc = TypeCodeOf(vt); break;
      case FK_STRING: vt = VT_STRING; tc = B_STRING_TYPE; break;
      case FK_MESSAGE: vt = VT_MESSAGE; tc = B_MESSAGE_TYPE; break;
      case FK_RAW: if (f.typeCode == B_INT32_TYPE) { vt = VT_INT32; tc = B_INT32_TYPE; } else if (f.typeCode == B_ANY_TYPE && g.R(8) == 0) { vt = VT_INT16; tc = B_INT16_TYPE; } else { vt = VT_RAW; tc = (f.typeCode == B_ANY_TYPE) ? (g.R(3) ? (uint32)B_RAW_TYPE : (uint32)CUSTOM_RAW_TYPE) : f.typeCode; if (tc != B_RAW_TYPE && tc != CUSTOM_RAW_TYPE) tc = B_RAW_TYPE; } break;
      default: { vt = -1; for (int i = 0; i < NUM_VT; i++) if (TypeCodeOf(i) == f.typeCode) vt = i; if (f.typeCode == CUSTOM_RAW_TYPE) vt = VT_RAW; if (vt < 0) { const NameInfo * ni = LookupName(f.field); vt = (ni && g.R(3)) ? ni->vt : (int)g.R(NUM_VT); } tc = (vt == VT_RAW && f.typeCode == CUSTOM_RAW_TYPE) ? (uint32)CUSTOM_RAW_TYPE : TypeCodeOf(vt); } break;
   }
   if (vt == VT_MESSAGE && depth >= 3) { m.Remove(f.field); st.missing++; return; }
   const uint32 idx = f.index > 6 ? 0 : f.index;   // a huge index can never be reached: shape the field as for index 0
   const uint32 shape = g.R(12);
   if (shape == 0) { m.Remove(f.field); st.missing++; return; }
   if (shape == 1) {   // wrong type, enough items
      int other = (vt + 1 + (int)g.R(NUM_VT - 1)) % NUM_VT; if (other == VT_MESSAGE && depth >= 2) other = (vt == VT_STRING) ? VT_INT32 : VT_STRING;
      uint32 otc = TypeCodeOf(other); if (vt == VT_RAW && g.R(2)) { other = VT_RAW; otc = (tc == B_RAW_TYPE) ? (uint32)CUSTOM_RAW_TYPE : (uint32)B_RAW_TYPE; }   // same representation, other type code
      AField & fld = m.Set(f.field, other, otc); FillItems(g, fld, idx + 1 + g.R(2), depth, o); st.wrongType++; return; }
   if (shape == 2) {   // right type, fewer items than the index needs
      if (idx == 0) { m.Remove(f.field); st.missing++; return; }
      AField & fld = m.Set(f.field, vt, tc); FillItems(g, fld, g.R(3) ? idx : 1 + g.R(idx), depth, o); st.tooShort++; return; }
   AField & fld = m.Set(f.field, vt, tc);
   FillItems(g, fld, idx + 1 + (g.R(3) == 0 ? 1 + g.R(2) : 0), depth, o);
   AVal & it = fld.items[idx];
   const uint32 how = g.R(10);   // 0-2 equal, 3-6 neighbour, 7-9 unrelated (already filled)
   switch (f.kind) {
      case FK_NUMERIC: if (how < 3) { it = f.value; st.equal++; } else if (how < 7) { it = NearNumVal(g, vt, f.value, g.R(2) ? 1 : -1); st.near++; } else st.random++; break;
      case FK_STRING:
         if (f.op >= 24) { if (how < 7) { it.s = SamplePattern(g, f); st.near++; } else st.random++; }
         else if (how < 3) { it.s = f.value.s; st.equal++; } else if (how < 7) { it.s = NearStr(g, f.value.s, false); st.near++; } else st.random++;
         break;
      case FK_RAW:
         if (vt == VT_RAW) { if (how < 3) { it.s = f.value.s; st.equal++; } else if (how < 7) { it.s = NearStr(g, f.value.s, true); st.near++; } else st.random++; if (it.s.empty()) { if (tc == B_RAW_TYPE && o.unspecOneIn && g.R(3) == 0) st.zeroLen++; else it.s = "a"; } }
         else if (vt == VT_INT32 && f.value.s.size() == 4 && how < 5) { int32 x; memcpy(&x, f.value.s.data(), 4); it.i = x; st.equal++; } else st.random++;
         break;
      case FK_MESSAGE: {
         AMsgRef sub = GenRandomMessage(g, depth + 1, o);
         if (f.hasChild && !f.kids.empty()) Steer(g, f.kids[0], *sub, depth + 1, o, st);
         it.m = sub; } break;
      default: if (vt == VT_RAW && tc == B_RAW_TYPE && o.unspecOneIn && g.R(o.unspecOneIn) == 0) { it.s.clear(); st.zeroLen++; } break;
   }
   // the other items of the field differ from the operand where possible, so that looking at the wrong index shows
   if (f.kind == FK_NUMERIC) for (size_t i = 0; i < fld.items.size(); i++) if (i != idx && CmpNum(vt, fld.items[i], it) == 0) fld.items[i] = NearNumVal(g, vt, it, g.R(2) ? 1 : -1);
}
static inline void Steer(Rng & g, const AFilter & f, AMsg & m, int depth, const GenOptions & o, ShapeStats & st)
{
   switch (f.kind) {
      case FK_WHAT: if (g.R(4)) { switch (g.R(6)) { case 0: m.what = f.lo; break; case 1: m.what = f.lo - 1; break; case 2: m.what = f.hi; break; case 3: m.what = f.hi + 1; break; case 4: m.what = f.lo + (f.hi - f.lo) / 2; break; default: break; } } break;
      case FK_EXISTS: case FK_NUMERIC: case FK_STRING: case FK_RAW: case FK_MESSAGE: if (g.R(5)) ShapeField(g, f, m, depth, o, st); break;
      case FK_CHILDCOUNT: case FK_NODENAME: break;
      default: for (size_t i = 0; i < f.kids.size(); i++) if (g.R(6)) Steer(g, f.kids[i], m, depth, o, st); break;
   }
}
// a test Message chosen adversarially around every filter of the tree (later filters on the same field override earlier ones)
static inline AMsgRef GenMessageFor(Rng & g, const AFilter & tree, const GenOptions & o, ShapeStats & st)
{
   AMsgRef m = GenRandomMessage(g, 0, o);
   Steer(g, tree, *m, 0, o, st);
   return m;
}

// ---------------------------------------------------------------------------------------------------------------- expression printer
// Prints a tree in the grammar of "Building a QueryFilter from an expression-String" (Beginners Guide): `field op value` leaves with
// `name:idx` / `name|default` on the field and casts on the value, `exists [(type)]field`, `what op N`, operands of && || ^ in one
// pair of parentheses each, never mixed at one level, negation as !(...) / !!(...) / !exists.  Returns false when the tree has no
// such form.  The guide's synonyms (and or xor not is equals =) are used now and then.
static inline bool IsKeywordWord(const std::string & s)
{
   static const char * const kw[] = {"and", "or", "xor", "not", "is", "equals", "what", "exists", "startswith", "endswith", "contains", "isstartof", "isendof", "issubstringof", "matches", "matchesregex", "true", "false"};
   const std::string l = Lower(s); for (size_t i = 0; i < sizeof(kw) / sizeof(kw[0]); i++) if (l == kw[i]) return true; return false;
}
static inline bool IsPlainWord(const std::string & s) { if (s.empty()) return false; for (size_t i = 0; i < s.size(); i++) if (!isalnum((unsigned char)s[i]) && s[i] != '_') return false; return !IsKeywordWord(s); }
static inline bool ExprFieldRef(const AFilter & f, const std::string * defText, std::string & o)
{
   if (!IsPlainWord(f.field) || isdigit((unsigned char)f.field[0])) return false;
   o += f.field; if (f.index) o += vh::fmt(":%u", f.index);
   if (defText) o += "|" + *defText;
   return true;
}
// text of a numeric value such that the parser's atol/atof conversion gives back exactly (v); empty if there is none
static inline std::string NumText(int vt, const AVal & v)
{
   switch (vt) {
      case VT_BOOL: return v.i ? "true" : "false";
      case VT_FLOAT: { if (v.f[0] != v.f[0] || fabsf(v.f[0]) > 1e6f) return ""; const std::string t = vh::fmt("%.9g", (double)v.f[0]); if (t.find('e') != std::string::npos || (float)atof(t.c_str()) != v.f[0]) return ""; return t; }
      case VT_DOUBLE: { if (v.d != v.d || fabs(v.d) > 1e6) return ""; const std::string t = vh::fmt("%.17g", v.d); if (t.find('e') != std::string::npos || atof(t.c_str()) != v.d) return ""; return t; }
      case VT_POINT: case VT_RECT: return "";   // the guide documents no syntax for Point / Rect values
      default: return vh::fmt("%lld", (long long)v.i);
   }
}
static inline const char * EqWord(Rng & g) { switch (g.R(12)) { case 0: return "is"; case 1: return "equals"; case 2: return "="; default: return "=="; } }
static inline bool ExprLeaf(const AFilter & f, std::string & o, Rng & g)
{
   static const char * const cmpOps[] = {"==", "<", ">", "<=", ">=", "!="};
   static const char * const casts[] = {"(bool)", "(int8)", "(int16)", "(int32)", "(int64)", "(float)", "(double)"};
   switch (f.kind) {
      case FK_WHAT:
         if (f.lo == f.hi) { o += std::string("what ") + EqWord(g) + vh::fmt(" %u", f.lo); return true; }
         if (f.lo == 0 && f.hi != MUSCLE_NO_LIMIT) { o += g.R(2) ? vh::fmt("what <= %u", f.hi) : vh::fmt("what < %u", f.hi + 1); return true; }
         if (f.hi == MUSCLE_NO_LIMIT && f.lo != 0) { o += g.R(2) ? vh::fmt("what >= %u", f.lo) : vh::fmt("what > %u", f.lo - 1); return true; }
         return false;
      case FK_EXISTS: {
         const char * c = NULL;
         switch (f.typeCode) { case B_ANY_TYPE: c = ""; break; case B_BOOL_TYPE: c = "(bool)"; break; case B_INT8_TYPE: c = "(int8)"; break; case B_INT16_TYPE: c = "(int16)"; break; case B_INT32_TYPE: c = "(int32)"; break; case B_INT64_TYPE: c = "(int64)"; break;
                                case B_FLOAT_TYPE: c = "(float)"; break; case B_DOUBLE_TYPE: c = "(double)"; break; case B_STRING_TYPE: c = "(string)"; break; case B_POINT_TYPE: c = "(point)"; break; case B_RECT_TYPE: c = "(rect)"; break; default: return false; }
         o += std::string("exists ") + c; return ExprFieldRef(f, NULL, o); }
      case FK_NUMERIC: {
         if (f.op > 5 || f.maskOp != 0 || f.vt >= VT_POINT) return false;
         const std::string vt = NumText(f.vt, f.value); if (vt.empty()) return false;
         std::string dt; if (f.hasDef) { dt = NumText(f.vt, f.def); if (dt.empty()) return false; }
         if (!ExprFieldRef(f, f.hasDef ? &dt : NULL, o)) return false;
         o += std::string(" ") + (f.op == 0 ? EqWord(g) : cmpOps[f.op]) + " ";
         bool cast = g.R(2) != 0; std::string val = vt;
         if (!cast) switch (f.vt) {   // the guide's type-inference rules
            case VT_BOOL: case VT_INT32: break;
            case VT_FLOAT: val += "f"; break;
            case VT_DOUBLE: if (val.find('.') == std::string::npos) val += ".0"; break;
            default: cast = true; break; }
         o += (cast ? std::string(casts[f.vt]) : std::string()) + val; return true; }
      case FK_STRING: {
         static const char * const sops[] = {"==", "<", ">", "<=", ">=", "!=", "startswith", "endswith", "contains", "isstartof", "isendof", "issubstringof"};
         const char * opw; if (f.op < 12) opw = (f.op == 0) ? EqWord(g) : sops[f.op]; else if (f.op == 24) opw = "matches"; else if (f.op == 25) opw = "matchesregex"; else return false;
         if (f.value.s.find('"') != std::string::npos) return false;
         if (f.hasDef && !IsPlainWord(f.def.s)) return false;
         if (!ExprFieldRef(f, f.hasDef ? &f.def.s : NULL, o)) return false;
         o += std::string(" ") + opw + " ";
         const bool bare = IsPlainWord(f.value.s) && isalpha((unsigned char)f.value.s[0]) && g.R(4) == 0;   // `age >= twenty-one`, `(string)twenty-one`
         if (bare) o += (g.R(2) ? "(string)" : "") + f.value.s; else o += "\"" + f.value.s + "\"";
         return true; }
      default: return false;
   }
}
enum { XC_NONE = 0, XC_LEAF, XC_AND, XC_OR, XC_XOR, XC_NOT, XC_NOTAND, XC_NOTOR, XC_PASS };
static inline int ExprClass(const AFilter & f)
{
   const uint32 nk = (uint32)f.kids.size();
   switch (f.kind) {
      case FK_WHAT: case FK_EXISTS: case FK_NUMERIC: case FK_STRING: return XC_LEAF;
      case FK_AND: return nk >= 2 ? XC_AND : nk == 1 ? XC_PASS : XC_NONE;
      case FK_OR: return nk >= 2 ? XC_OR : nk == 1 ? XC_PASS : XC_NONE;
      case FK_XOR: return nk >= 2 ? XC_XOR : nk == 1 ? XC_PASS : XC_NONE;
      case FK_MINMATCH: if (nk == 0 || f.threshold == nk) return XC_NONE; if (nk == 1) return XC_PASS; return f.threshold == 0 ? XC_OR : f.threshold >= nk - 1 ? XC_AND : XC_NONE;
      case FK_NAND: return nk >= 2 ? XC_NOTAND : nk == 1 ? XC_NOT : XC_NONE;
      case FK_NOR: return nk >= 2 ? XC_NOTOR : nk == 1 ? XC_NOT : XC_NONE;
      case FK_MAXMATCH: if (nk == 0) return XC_NONE; if (nk == 1) return XC_NOT; return f.threshold == 0 ? XC_NOTOR : f.threshold >= nk - 1 ? XC_NOTAND : XC_NONE;
      default: return XC_NONE;
   }
}
static inline const AFilter & SkipPass(const AFilter & f) { const AFilter * p = &f; while (ExprClass(*p) == XC_PASS) p = &p->kids[0]; return *p; }
static inline bool ExprAny(const AFilter & f0, std::string & o, Rng & g, bool & bareNegation);
static inline bool ExprOperand(const AFilter & f0, std::string & o, Rng & g)
{
   const AFilter & f = SkipPass(f0); const int c = ExprClass(f);
   std::string s; bool bare = false; if (!ExprAny(f, s, g, bare)) return false;
   if (c == XC_NOT || c == XC_NOTAND || c == XC_NOTOR) o += bare ? "(" + s + ")" : s;   // "!(...)" stands directly in operand position
   else o += "(" + s + ")";
   return true;
}
static inline bool ExprConj(const AFilter & f, int c, std::string & o, Rng & g)
{
   const bool words = g.R(10) == 0;
   const char * j = (c == XC_AND) ? (words ? " and " : " && ") : (c == XC_OR) ? (words ? " or " : " || ") : (words ? " xor " : " ^ ");
   for (size_t i = 0; i < f.kids.size(); i++) { if (i) o += j; if (!ExprOperand(f.kids[i], o, g)) return false; }
   return true;
}
static inline bool ExprAny(const AFilter & f0, std::string & o, Rng & g, bool & bareNegation)
{
   const AFilter & f = SkipPass(f0); const int c = ExprClass(f); bareNegation = false;
   const char * bang = g.R(12) == 0 ? "not " : "!";
   switch (c) {
      case XC_LEAF: return ExprLeaf(f, o, g);
      case XC_AND: case XC_OR: case XC_XOR: return ExprConj(f, c, o, g);
      case XC_NOTAND: case XC_NOTOR: { std::string s; if (!ExprConj(f, c == XC_NOTAND ? XC_AND : XC_OR, s, g)) return false; o += std::string(bang) + "(" + s + ")"; return true; }
      case XC_NOT: {
         const AFilter & k = SkipPass(f.kids[0]); const int kc = ExprClass(k);
         if (kc == XC_NONE) return false;
         if (kc == XC_LEAF && k.kind == FK_EXISTS && g.R(2)) { std::string s; if (!ExprLeaf(k, s, g)) return false; o += std::string(bang) + s; bareNegation = true; return true; }   // `!exists (int32)age`
         if (kc == XC_LEAF && k.kind == FK_WHAT && k.lo == k.hi && g.R(2)) { o += vh::fmt("what != %u", k.lo); bareNegation = true; return true; }   // a leaf form: needs its parentheses as an operand
         std::string s; bool kb = false; if (!ExprAny(k, s, g, kb)) return false;
         if (kc == XC_NOT || kc == XC_NOTAND || kc == XC_NOTOR) { if (kb) return false; o += std::string(bang) + s; }   // double negation is written "!!(...)"; "!(!(...))" is rejected by the parser
         else o += std::string(bang) + "(" + s + ")";
         return true; }
      default: return false;
   }
}
static inline bool ToExpression(const AFilter & f, std::string & o, Rng & g) { bool bare; o.clear(); return ExprAny(f, o, g, bare); }

// ---------------------------------------------------------------------------------------------------------------- small constructors (tables of fixed cases)
static inline AVal IV(int64_t i) { AVal v; v.i = i; return v; }
static inline AVal FV(float x) { AVal v; v.f[0] = x; return v; }
static inline AVal DV(double x) { AVal v; v.d = x; return v; }
static inline AVal SV(const std::string & s) { AVal v; v.s = s; return v; }
static inline AFilter MkNum(const std::string & field, int vt, uint8 op, const AVal & value, uint32 idx = 0) { AFilter f; f.kind = FK_NUMERIC; f.field = field; f.vt = vt; f.op = op; f.value = value; f.index = idx; return f; }
static inline AFilter MkNumDef(const std::string & field, int vt, uint8 op, const AVal & value, uint32 idx, const AVal & def) { AFilter f = MkNum(field, vt, op, value, idx); f.hasDef = true; f.def = def; return f; }
static inline AFilter MkStr(const std::string & field, uint8 op, const std::string & value, uint32 idx = 0) { AFilter f; f.kind = FK_STRING; f.field = field; f.op = op; f.value.s = value; f.index = idx; return f; }
static inline AFilter MkStrDef(const std::string & field, uint8 op, const std::string & value, uint32 idx, const std::string & def) { AFilter f = MkStr(field, op, value, idx); f.hasDef = true; f.def.s = def; return f; }
static inline AFilter MkExists(const std::string & field, uint32 typeCode = B_ANY_TYPE, uint32 idx = 0) { AFilter f; f.kind = FK_EXISTS; f.field = field; f.typeCode = typeCode; f.index = idx; return f; }
static inline AFilter MkWhat(uint32 lo, uint32 hi) { AFilter f; f.kind = FK_WHAT; f.lo = lo; f.hi = hi; return f; }
static inline AFilter MkMulti(int kind, const AFilter & a) { AFilter f; f.kind = kind; f.kids.push_back(a); return f; }
static inline AFilter MkMulti(int kind, const AFilter & a, const AFilter & b) { AFilter f = MkMulti(kind, a); f.kids.push_back(b); return f; }
static inline AFilter MkMulti(int kind, const AFilter & a, const AFilter & b, const AFilter & c) { AFilter f = MkMulti(kind, a, b); f.kids.push_back(c); return f; }
static inline AFilter MkMulti(int kind, const AFilter & a, const AFilter & b, const AFilter & c, const AFilter & d) { AFilter f = MkMulti(kind, a, b, c); f.kids.push_back(d); return f; }
static inline AFilter MkNot(const AFilter & a) { return MkMulti(FK_NOR, a); }

}  // namespace reffilter
#endif
