// refwild.h -- INDEPENDENT reference for muscle's documented "simple" wildcard pattern syntax (header only,
// no muscle dependency).  Written from the doc comment of StringMatcher::SetPattern() and the property statement C15:
//    *  any run of characters (incl. none)      ?  any one character (= one byte: muscle never sets a locale)
//    [abc] [a-f] [a-c1-3_]  a character class    (x|yz|)  a group of alternatives      a,b,c  top-level alternatives
//       (between [ and ] every character is just a member: [?*,.+|(){}$] are those eleven characters; a ] directly after
//        [ or [^ is a member, a - in first or last position is a member, [^..] is the complement -- bash globbing and
//        POSIX brackets agree on all of these; [!..], a backslash or a [ inside a class do not agree and are refused)
//    a leading ~ negates the whole pattern       a whole-pattern <a-b,c-,-d,e> list of inclusive numeric ranges
//    \x makes x literal                          the WHOLE subject must match
// Used by h_wildcard (C15) and by the reflector harnesses (C04/C05) for subscription / routing paths.
//
//  * The pattern is an AST (Pattern / Seq / Node); Match() is a backtracking matcher over the AST, so that a generator
//    that builds ASTs needs no second parser which could disagree about the text.
//  * Print() writes an AST with the minimal documented escaping: backslash before * ? , ( ) [ ] | \ { } ^ $ as literals,
//    before < ~ ` only in first position (at the very start, or directly after the negating ~); Node::esc forces a
//    backslash before any other literal ("over-escaped" patterns).
//  * Parse() reads the SUBSET of pattern text that is documented (and that the harnesses generate): everything outside it
//    (unescaped ^ $ { } | ) ] outside a construct, [!..] classes, a backslash or a '[' inside a class, an unescaped comma
//    inside a group, backtick-regex patterns, a trailing backslash, "~" alone, <..> that is not a well-formed range list)
//    is refused with a reason: those texts pass through to POSIX regex and are documented nowhere.
//  * Match(text, subject) = Parse + Match; a refused text is a precondition failure of the calling harness
//    (HARNESS-ABORT), never a silent "false".
//  * Numeric ranges: the documented meaning is "ASCII representations of integers in the range".  Match() says true
//    for an all-digit, non-empty subject whose value lies in one of the ranges (leading zeros allowed), false for every
//    other subject ("<19-21> would match 19, 20, and 21 only": a sign, white space, letters, the empty string do not
//    match, and do match under a leading ~).  Unspecified, NumericCorner() tells the caller so that it can exclude and
//    count: a list with the fully open clause "-" against a subject that is not a digit string (doc: "<-> will match
//    everything, same as *" contradicts "only integers"), values beyond 2^32-1, reversed bounds.
#ifndef VERIF_REFWILD_H
#define VERIF_REFWILD_H
#include <string>
#include <vector>
#include <set>
#include <utility>
#include <cstdint>
#include <cstdio>
#include <cstdlib>
#include <cstring>

namespace refwild {

struct ClassItem { unsigned char lo, hi; ClassItem(unsigned char l = 0, unsigned char h = 0) : lo(l), hi(h) {} };   // one member: lo == hi
struct Node;
typedef std::vector<Node> Seq;
struct Node {
   enum Kind { LIT, STAR, ANY1, CLASS, GROUP };
   Kind k;
   unsigned char c;               // LIT
   bool esc;                      // LIT: print a backslash even where the syntax does not need one
   std::vector<ClassItem> cls;    // CLASS: members and ranges, printed in this order (the builder keeps ']' first, '-' first or last, '^' not first)
   bool neg;                      // CLASS: [^...], any one character that is NOT a member
   std::vector<Seq> alts;         // GROUP: one or more alternatives, each possibly empty
   Node() : k(LIT), c('a'), esc(false), neg(false) {}
   static Node Lit(unsigned char ch, bool e = false) { Node n; n.k = LIT; n.c = ch; n.esc = e; return n; }
   static Node Star() { Node n; n.k = STAR; return n; }
   static Node Any1() { Node n; n.k = ANY1; return n; }
};
struct NumRange { bool hasLo, hasHi; uint64_t lo, hi; NumRange() : hasLo(false), hasHi(false), lo(0), hi(0) {} };
struct Pattern {
   bool negate;                   // leading ~
   bool numeric;                  // whole-pattern <...> list; then ranges is used, else alts
   std::vector<NumRange> ranges;
   std::vector<Seq> alts;         // top-level comma list; no alternative at all = the empty pattern (matches nothing)
   Pattern() : negate(false), numeric(false) {}
};

// ---------------------------------------------------------------------------------------------- printer
static inline bool NeedsEscapeAnywhere(unsigned char c) { return c != 0 && strchr("*?,()[]|\\{}^$", c) != NULL; }
static inline bool NeedsEscapeInFirstPosition(unsigned char c) { return c == '<' || c == '~' || c == '`'; }

static inline void PrintSeq(const Seq & s, std::string & o, size_t firstPos)
{
   for (size_t i = 0; i < s.size(); i++) {
      const Node & x = s[i];
      switch (x.k) {
      case Node::LIT:
         if (x.esc || NeedsEscapeAnywhere(x.c) || (o.size() == firstPos && NeedsEscapeInFirstPosition(x.c))) o.push_back('\\');
         o.push_back((char)x.c);
         break;
      case Node::STAR: o.push_back('*'); break;
      case Node::ANY1: o.push_back('?'); break;
      case Node::CLASS:
         o.push_back('['); if (x.neg) o.push_back('^');
         for (size_t j = 0; j < x.cls.size(); j++) { o.push_back((char)x.cls[j].lo); if (x.cls[j].hi != x.cls[j].lo) { o.push_back('-'); o.push_back((char)x.cls[j].hi); } }
         o.push_back(']');
         break;
      case Node::GROUP:
         o.push_back('(');
         for (size_t j = 0; j < x.alts.size(); j++) { if (j) o.push_back('|'); PrintSeq(x.alts[j], o, (size_t)-1); }
         o.push_back(')');
         break;
      }
   }
}
static inline std::string Print(const Pattern & p)
{
   std::string o;
   if (p.negate) o.push_back('~');
   if (p.numeric) {
      o.push_back('<');
      for (size_t i = 0; i < p.ranges.size(); i++) {
         const NumRange & r = p.ranges[i]; char b[64];
         if (i) o.push_back(',');
         if (r.hasLo && r.hasHi && r.lo == r.hi) { snprintf(b, sizeof(b), "%llu", (unsigned long long)r.lo); o += b; }
         else { if (r.hasLo) { snprintf(b, sizeof(b), "%llu", (unsigned long long)r.lo); o += b; } o.push_back('-'); if (r.hasHi) { snprintf(b, sizeof(b), "%llu", (unsigned long long)r.hi); o += b; } }
      }
      o.push_back('>');
      return o;
   }
   const size_t firstPos = o.size();
   for (size_t i = 0; i < p.alts.size(); i++) { if (i) o.push_back(','); PrintSeq(p.alts[i], o, firstPos); }
   return o;
}

// ---------------------------------------------------------------------------------------------- matcher
struct Cont { const Seq * s; size_t i; const Cont * up; };
struct MatchState { const std::string * t; std::set<std::pair<const Node *, size_t> > deadStars; unsigned long steps; MatchState() : t(NULL), steps(0) {} };

static inline bool InClass(const Node & x, unsigned char c) { for (size_t j = 0; j < x.cls.size(); j++) if (c >= x.cls[j].lo && c <= x.cls[j].hi) return !x.neg; return x.neg; }

// does s[i..] followed by the continuation k match t[p..] up to the very end of t?
// (the AST is a tree: a Seq has exactly one continuation, so "star x cannot succeed from p" can be remembered)
static inline bool MatchFrom(MatchState & st, const Seq & s, size_t i, size_t p, const Cont * k)
{
   const std::string & t = *st.t; st.steps++;
   if (i == s.size()) return k ? MatchFrom(st, *k->s, k->i, p, k->up) : (p == t.size());
   const Node & x = s[i];
   switch (x.k) {
   case Node::LIT:   return p < t.size() && (unsigned char)t[p] == x.c && MatchFrom(st, s, i + 1, p + 1, k);
   case Node::ANY1:  return p < t.size() && MatchFrom(st, s, i + 1, p + 1, k);
   case Node::CLASS: return p < t.size() && InClass(x, (unsigned char)t[p]) && MatchFrom(st, s, i + 1, p + 1, k);
   case Node::STAR: {
      const std::pair<const Node *, size_t> key(&x, p);
      if (st.deadStars.count(key)) return false;
      for (size_t q = p; q <= t.size(); q++) if (MatchFrom(st, s, i + 1, q, k)) return true;
      st.deadStars.insert(key);
      return false; }
   case Node::GROUP: {
      Cont c; c.s = &s; c.i = i + 1; c.up = k;
      for (size_t a = 0; a < x.alts.size(); a++) if (MatchFrom(st, x.alts[a], 0, p, &c)) return true;
      return false; }
   }
   return false;
}
static inline bool MatchSeq(const Seq & s, const std::string & subject) { MatchState st; st.t = &subject; return MatchFrom(st, s, 0, 0, NULL); }

static inline bool AllDigits(const std::string & s) { if (s.empty()) return false; for (size_t i = 0; i < s.size(); i++) if (s[i] < '0' || s[i] > '9') return false; return true; }
static inline uint64_t DigitsValueSaturating(const std::string & s)
{
   uint64_t v = 0;
   for (size_t i = 0; i < s.size(); i++) { const uint64_t d = (uint64_t)(s[i] - '0'); if (v > (UINT64_MAX - d) / 10) return UINT64_MAX; v = v * 10 + d; }
   return v;
}
// Unspecified corners of the numeric-range form (see the header comment); NULL when the (pattern, subject) pair is specified.
static inline const char * NumericCorner(const Pattern & p, const std::string & subject)
{
   if (!p.numeric) return NULL;
   for (size_t i = 0; i < p.ranges.size(); i++) {
      if (!p.ranges[i].hasLo && !p.ranges[i].hasHi && !AllDigits(subject)) return "open_clause_nondigit_subject";
      if ((p.ranges[i].hasLo && p.ranges[i].lo > 0xFFFFFFFFULL) || (p.ranges[i].hasHi && p.ranges[i].hi > 0xFFFFFFFFULL)) return "bound_beyond_uint32";
      if (p.ranges[i].hasLo && p.ranges[i].hasHi && p.ranges[i].lo > p.ranges[i].hi) return "reversed_bounds";
   }
   if (p.ranges.empty()) return "no_clause";
   if (AllDigits(subject) && DigitsValueSaturating(subject) > 0xFFFFFFFFULL) return "subject_beyond_uint32";
   return NULL;
}
static inline bool MatchPositive(const Pattern & p, const std::string & subject)
{
   if (p.numeric) {
      if (!AllDigits(subject)) return false;
      const uint64_t v = DigitsValueSaturating(subject);
      for (size_t i = 0; i < p.ranges.size(); i++) {
         const NumRange & r = p.ranges[i];
         if ((!r.hasLo || v >= r.lo) && (!r.hasHi || v <= r.hi)) return true;
      }
      return false;
   }
   for (size_t i = 0; i < p.alts.size(); i++) if (MatchSeq(p.alts[i], subject)) return true;
   return false;
}
static inline bool Match(const Pattern & p, const std::string & subject) { const bool m = MatchPositive(p, subject); return p.negate ? !m : m; }

// ---------------------------------------------------------------------------------------------- parser (documented subset)
struct Parser {
   const std::string & t; size_t pos; std::string why;
   explicit Parser(const std::string & text) : t(text), pos(0) {}
   bool Fail(const std::string & w) { if (why.empty()) { char b[32]; snprintf(b, sizeof(b), " at offset %zu", pos); why = w + b; } return false; }
   bool ParseClass(Node & n)
   {
      n.k = Node::CLASS; pos++;   // '['
      if (pos < t.size() && t[pos] == '!') return Fail("[!..]: complement in globbing, a member '!' in POSIX brackets");
      if (pos < t.size() && t[pos] == '^') { n.neg = true; pos++; }
      bool any = false;
      while (true) {
         if (pos >= t.size()) return Fail("unterminated class");
         unsigned char c = (unsigned char)t[pos];
         if (c == ']' && any) { pos++; return true; }        // a ']' directly after '[' or '[^' is a member
         if (c == '\\') return Fail("backslash inside a class is not documented");
         if (c == '[') return Fail("'[' inside a class (POSIX [:class:] forms) is not documented");
         if (pos + 2 < t.size() && t[pos + 1] == '-' && t[pos + 2] != ']') {
            unsigned char hi = (unsigned char)t[pos + 2];
            if (hi == '\\' || hi == '[') return Fail("class range to a metacharacter");
            if (hi < c) return Fail("reversed class range");
            n.cls.push_back(ClassItem(c, hi)); pos += 3;
         }
         else { n.cls.push_back(ClassItem(c, c)); pos++; }
         any = true;
      }
   }
   // parses until an unescaped terminator: ',' (top level only), '|' or ')' (inside a group only), or the end
   bool ParseSeq(Seq & s, int depth)
   {
      while (pos < t.size()) {
         const unsigned char c = (unsigned char)t[pos];
         switch (c) {
         case '\\': if (pos + 1 >= t.size()) return Fail("trailing backslash"); s.push_back(Node::Lit((unsigned char)t[pos + 1], true)); pos += 2; break;
         case '*': s.push_back(Node::Star()); pos++; break;
         case '?': s.push_back(Node::Any1()); pos++; break;
         case '[': { Node n; if (!ParseClass(n)) return false; s.push_back(n); } break;
         case '(': {
            if (depth >= 64) return Fail("nesting too deep");
            Node n; n.k = Node::GROUP; pos++;
            while (true) {
               n.alts.push_back(Seq());
               if (!ParseSeq(n.alts.back(), depth + 1)) return false;
               if (pos >= t.size()) return Fail("unterminated group");
               if (t[pos] == '|') { pos++; continue; }
               if (t[pos] == ')') { pos++; break; }
               return Fail("unexpected character in group");
            }
            s.push_back(n); } break;
         case ',': if (depth == 0) return true; return Fail("unescaped comma inside a group is not documented");
         case '|': case ')': if (depth > 0) return true; return Fail("unescaped '|' or ')' outside a group");
         case ']': case '{': case '}': case '^': case '$': return Fail("unescaped regex character outside the documented constructs");
         default: s.push_back(Node::Lit(c, false)); pos++; break;
         }
      }
      return true;
   }
   bool ParseNumber(uint64_t & v) { size_t b = pos; while (pos < t.size() && t[pos] >= '0' && t[pos] <= '9') pos++; if (pos == b || pos - b > 19) return false; v = DigitsValueSaturating(t.substr(b, pos - b)); return true; }
   bool ParseRanges(Pattern & p)
   {
      p.numeric = true; pos++;   // '<'
      while (true) {
         NumRange r;
         if (pos < t.size() && t[pos] >= '0' && t[pos] <= '9') { if (!ParseNumber(r.lo)) return Fail("bad number"); r.hasLo = true; if (pos < t.size() && t[pos] == '-') { pos++; if (pos < t.size() && t[pos] >= '0' && t[pos] <= '9') { if (!ParseNumber(r.hi)) return Fail("bad number"); r.hasHi = true; } } else { r.hasHi = true; r.hi = r.lo; } }
         else if (pos < t.size() && t[pos] == '-') { pos++; if (pos < t.size() && t[pos] >= '0' && t[pos] <= '9') { if (!ParseNumber(r.hi)) return Fail("bad number"); r.hasHi = true; } }
         else return Fail("malformed range clause");
         p.ranges.push_back(r);
         if (pos < t.size() && t[pos] == ',') { pos++; continue; }
         if (pos + 1 == t.size() && t[pos] == '>') { pos++; return true; }
         return Fail("malformed range list");
      }
   }
   bool ParsePattern(Pattern & p)
   {
      p = Pattern();
      if (t.empty()) return true;                         // the empty pattern: documented to match nothing
      if (t[0] == '~') { p.negate = true; pos = 1; if (t.size() == 1) return Fail("'~' alone"); }
      if (t[pos] == '`') return Fail("backtick-regex pattern");
      if (t[pos] == '<') {
         const size_t gt = t.find('>', pos + 1);
         if (gt != std::string::npos && gt + 1 == t.size()) return ParseRanges(p);
         return Fail("unescaped '<' in first position that is not a range list");
      }
      if (t[pos] == '~') return Fail("unescaped second '~'");
      while (true) {
         p.alts.push_back(Seq());
         if (!ParseSeq(p.alts.back(), 0)) return false;
         if (pos < t.size() && t[pos] == ',') { pos++; continue; }
         break;
      }
      return pos == t.size() ? true : Fail("trailing text");
   }
};
static inline bool Parse(const std::string & text, Pattern & out, std::string * optWhy = NULL)
{
   if (text.find('\0') != std::string::npos) { if (optWhy) *optWhy = "NUL byte"; return false; }
   Parser ps(text);
   const bool ok = ps.ParsePattern(out);
   if (!ok && optWhy) *optWhy = ps.why;
   return ok;
}
// the entry point for harnesses that hold pattern TEXT of the documented subset
static inline bool Match(const std::string & patternText, const std::string & subject)
{
   Pattern p; std::string why;
   if (!Parse(patternText, p, &why)) { fprintf(stderr, "HARNESS-ABORT: refwild::Match: pattern [%s] is outside the documented subset: %s\n", patternText.c_str(), why.c_str()); abort(); }
   return Match(p, subject);
}

// ---------------------------------------------------------------------------------------------- paths
// '/'-separated paths (PathMatcher, SegmentedStringMatcher, subscription and routing paths): a leading '/' and empty
// segments are ignored on both sides; a path pattern matches a path iff both have the same number of segments and every
// clause matches its segment (prefixOK: the path may have more segments than the pattern).
static inline std::vector<std::string> SplitPath(const std::string & path)
{
   std::vector<std::string> v; std::string cur;
   for (size_t i = 0; i <= path.size(); i++) { if (i == path.size() || path[i] == '/') { if (!cur.empty()) v.push_back(cur); cur.clear(); } else cur.push_back(path[i]); }
   return v;
}
static inline bool MatchPath(const std::string & patternPath, const std::string & path, bool prefixOK = false)
{
   const std::vector<std::string> pc = SplitPath(patternPath), sc = SplitPath(path);
   if (prefixOK ? (sc.size() < pc.size()) : (sc.size() != pc.size())) return false;
   for (size_t i = 0; i < pc.size(); i++) if (!Match(pc[i], sc[i])) return false;
   return true;
}

// ---------------------------------------------------------------------------------------------- sampling
// a subject drawn FROM the pattern (a positive by construction); RNG needs uint32_t R(uint32_t n) -> [0,n)
template<class RNG> static inline void SampleSeq(const Seq & s, std::string & o, RNG & g, const std::string & alphabet, uint32_t maxStar = 3)
{
   for (size_t i = 0; i < s.size(); i++) {
      const Node & x = s[i];
      switch (x.k) {
      case Node::LIT: o.push_back((char)x.c); break;
      case Node::STAR: { uint32_t n = g.R(maxStar + 1); for (uint32_t j = 0; j < n; j++) o.push_back(alphabet[g.R((uint32_t)alphabet.size())]); } break;
      case Node::ANY1: o.push_back(alphabet[g.R((uint32_t)alphabet.size())]); break;
      case Node::CLASS:
         if (x.neg) {   // some character that is not a member: from the alphabet if it has one, else any byte 1..255
            unsigned char pick = 0; const uint32_t off = g.R((uint32_t)alphabet.size());
            for (size_t j = 0; j < alphabet.size() && !pick; j++) { const unsigned char c = (unsigned char)alphabet[(off + j) % alphabet.size()]; if (InClass(x, c)) pick = c; }
            for (unsigned b = 1; b < 256 && !pick; b++) if (InClass(x, (unsigned char)b)) pick = (unsigned char)b;
            if (pick) o.push_back((char)pick);   // (a complement of everything has no sample: the subject then simply does not match)
         }
         else { const ClassItem & it = x.cls[g.R((uint32_t)x.cls.size())]; o.push_back((char)(it.lo + g.R((uint32_t)(it.hi - it.lo) + 1))); }
         break;
      case Node::GROUP: SampleSeq(x.alts[g.R((uint32_t)x.alts.size())], o, g, alphabet, maxStar); break;
      }
   }
}
static inline bool IsPureLiteral(const Pattern & p, std::string * optText = NULL)
{
   if (p.negate || p.numeric || p.alts.size() != 1) return false;
   std::string s;
   for (size_t i = 0; i < p.alts[0].size(); i++) { if (p.alts[0][i].k != Node::LIT) return false; s.push_back((char)p.alts[0][i].c); }
   if (optText) *optText = s;
   return true;
}
static inline size_t CountNodes(const Seq & s) { size_t n = 0; for (size_t i = 0; i < s.size(); i++) { n++; for (size_t a = 0; a < s[i].alts.size(); a++) n += CountNodes(s[i].alts[a]); } return n; }
static inline bool HasKind(const Seq & s, Node::Kind k) { for (size_t i = 0; i < s.size(); i++) { if (s[i].k == k) return true; for (size_t a = 0; a < s[i].alts.size(); a++) if (HasKind(s[i].alts[a], k)) return true; } return false; }
static inline int Depth(const Seq & s) { int d = 0; for (size_t i = 0; i < s.size(); i++) for (size_t a = 0; a < s[i].alts.size(); a++) { int e = 1 + Depth(s[i].alts[a]); if (e > d) d = e; } return d; }

}  // namespace refwild
#endif
