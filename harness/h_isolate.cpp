// h_isolate -- C06: a session can alter only its own subtree, and leaves no trace when it departs.
// Built on reflectbench.h (one real ReflectServer stepped single-threaded, real gateways over socketpairs).
// modes (--opt mode=):
//   isolate  one case = one history on a fresh server: two silent victims and an observer build state (nodes, an ordered
//            index, subscriptions, a parameter), one attacker sends a burst of 30-120 hostile commands (18 command codes
//            incl. nested BATCH, 30 key shapes, forged session / !Priv fields).  At random points and at the end the
//            in-process snapshot of everything outside the attacker's own root must be identical (payload bytes, index
//            order, subscriber tables minus the attacker's id), victims' GETPARAMETERS minus 7 volatile fields identical,
//            victims attached and answering a ping, victims' subscriber marks == what their subscription strings select
//            (over ALL nodes, attacker's included), victims' node counters == nodes they own, observer's GETDATA view
//            identical.  Every clean case ends with the ORACLE SELF-TEST: a victim legitimately removes one of its index
//            entries and the snapshot comparison must report it (HARNESS-ABORT if it stays silent).
//   cut      one case = one (stream, prefix length) pair; consecutive cases cover every prefix 0..len of a stream of
//            470-700 hand-framed bytes (SETDATA of four nodes, INSERTORDEREDDATA, two subscriptions, further commands)
//            written to a raw socket and cut there, each against a fresh server with 1-2 subscribed witnesses.
//            Oracle at the next quiescent point: session detached; no node of it; no subscriber mark of it on any node nor
//            in the cached subscriber tables; subscriber tables == subscription strings of the remaining sessions (independent
//            matcher); witnesses' mirrors hold no path of it (each was told); node counters; the whole tree, the witnesses'
//            parameters and the session count equal the snapshot taken before the leaver joined; ping answered.
//   regress  fixed deterministic witnesses of both parts, bench self-checks (reference matcher vs muscle's StringMatcher,
//            slow client builds a server-side queue, CutAfter), oracle self-tests.
#include "reflectbench.h"
#include "regex/QueryFilter.h"
#include "vh.h"
#include <functional>
#include <algorithm>
using namespace muscle;
using namespace rb;

static vh::Rng g(1);
static uint32_t R(uint32_t n) { return g.R(n); }
enum { STREAM_ISOLATE = 601, STREAM_CUTGEN = 602, STREAM_CUTCASE = 603 };

static MessageRef Payload(uint32 what, const char * field, int32 v) { MessageRef m = GetMessageFromPool(what); if (m() == NULL || m()->AddInt32(field, v).IsError()) Abort("cannot build a payload Message"); return m; }
// content filters on subscriptions.  Marks are placed and removed BY PATH ONLY (filters decide what is reported, not what is marked),
// so the subscriber-table oracle ignores them; they are here because teardown code that consults the filter leaves marks behind.
struct FilterSpec { int kind; int32 iv; std::string sv; FilterSpec() : kind(0), iv(0) {} };    // 0 none | 1 int32 <f> == iv | 2 string s == sv | 3 int32 <f> >= iv
static FilterSpec RandomFilter() { FilterSpec f; f.kind = 1 + (int)R(3); f.iv = (f.kind == 3) ? 1 + (int32)R(4) : (int32)R(5); f.sv = R(2) ? "x" : "y"; return f; }
static std::string ShowFilter(const FilterSpec & f, const char * intField) { return f.kind == 0 ? "" : f.kind == 2 ? "[s==" + f.sv + "]" : vh::fmt("[%s%s%d]", intField, f.kind == 1 ? "==" : ">=", f.iv); }
static void PutSub(Message & sp, const std::string & pat, const FilterSpec & f, const char * intField)
{
   const std::string name = "SUBSCRIBE:" + pat;
   if (f.kind == 0) { if (sp.AddBool(name.c_str(), true).IsError()) Abort("AddBool failed"); return; }
   MessageRef fm = GetMessageFromPool(); status_t r;
   if (f.kind == 2) { StringQueryFilter q("s", StringQueryFilter::OP_EQUAL_TO, f.sv.c_str()); r = q.SaveToArchive(*fm()); }
   else { Int32QueryFilter q(intField, (uint8)(f.kind == 1 ? Int32QueryFilter::OP_EQUAL_TO : Int32QueryFilter::OP_GREATER_THAN_OR_EQUAL_TO), f.iv); r = q.SaveToArchive(*fm()); }
   if (r.IsError() || sp.AddMessage(name.c_str(), fm).IsError()) Abort("cannot archive a query filter into a SUBSCRIBE: field");
}
static bool FilterPasses(const FilterSpec & f, const std::string & payloadBytes, const char * intField)
{
   if (f.kind == 0) return true;
   Message m; if (payloadBytes.empty() || m.UnflattenFromBytes((const uint8 *)payloadBytes.data(), (uint32)payloadBytes.size()).IsError()) return false;
   if (f.kind == 2) { const String * v; return m.FindString("s", &v).IsOK() && f.sv == v->Cstr(); }
   int32 v; if (m.FindInt32(intField, v).IsError()) return false;
   return f.kind == 1 ? (v == f.iv) : (v >= f.iv);
}
// witness / victim payload: int32 <field> = v and string s = x|y
static MessageRef Payload2(uint32 what, const char * field, int32 v) { MessageRef m = Payload(what, field, v); if (m()->AddString("s", (v & 1) ? "x" : "y").IsError()) Abort("AddString failed"); return m; }
static std::string Tail(const std::vector<std::string> & log, size_t n) { std::string s; for (size_t i = (log.size() > n ? log.size() - n : 0); i < log.size(); i++) { s += log[i]; s += " ; "; } return s; }
static std::string Join(const std::vector<std::string> & v, const char * sep, size_t maxItems = 12) { std::string s; for (size_t i = 0; i < v.size() && i < maxItems; i++) { if (i) s += sep; s += v[i]; } if (v.size() > maxItems) s += vh::fmt("%s...(%zu more)", sep, v.size() - maxItems); return s; }
// pick n patterns from a pool such that no two have the same canonical form (SUBSCRIBE:a == SUBSCRIBE:/*/*/a)
static std::vector<std::string> PickSubs(const char * const * pool, size_t poolSize, uint32 n, const std::vector<std::string> & avoid = std::vector<std::string>())
{
   std::vector<std::string> out; std::set<std::string> canon; for (size_t i = 0; i < avoid.size(); i++) canon.insert(CanonSub(avoid[i]));
   for (int tries = 0; out.size() < n && tries < 64; tries++) { std::string p = pool[R((uint32)poolSize)]; if (canon.insert(CanonSub(p)).second) out.push_back(p); }
   return out;
}
static std::string DiffKind(const std::string & line)
{
   if (line.compare(0, 12, "node removed") == 0) return "node_removed";
   if (line.compare(0, 12, "node created") == 0) return "node_created";
   size_t a = line.find('('), b = line.find_first_of(",)", a == std::string::npos ? 0 : a);
   return (a == std::string::npos || b == std::string::npos) ? "node_changed" : "node_changed_" + line.substr(a + 1, b - a - 1);
}

// A finding of this harness (not in DESIGN.md section 7): DataNode::_orderedCounter is not reset when a DataNode object is
// recycled through the node pool, so the names given to the ordered children of a FRESH node (documented: I0, I1, ...)
// depend on what a departed session -- even one of an earlier server in the same process -- did with that object.
// Classified under its own key; the case goes on (all other oracles read the names from the index instead of assuming them).
static void CheckFreshIndexNames(const TreeSnap & s, const std::string & idxPath, const std::string & who)
{
   TreeSnap::const_iterator it = s.find(idxPath); if (it == s.end() || it->second.index.empty()) return;
   vh::stat("fresh_indexes_checked");
   for (size_t i = 0; i < it->second.index.size(); i++) if (it->second.index[i] != vh::fmt("I%zu", i)) {
      vh::viol("trace|recycled_node_keeps_ordered_counter", who + ": the ordered children of the fresh node " + idxPath + " were named " + Join(it->second.index, ",") + " instead of I0,I1,... (the node object was used by an earlier, departed session)");
      return; }
}

// =====================================================================================================================
// isolation
// =====================================================================================================================
struct IsoWorld {
   Bench B; Client * v1, * v2, * obs, * att; std::vector<Client *> victims;      // victims = v1, v2, obs (all silent)
   std::map<uint32, std::vector<std::string> > subs; std::set<uint32> ignore;
   TreeSnap before; std::map<Client *, std::string> p0; std::map<Client *, long> nodes0; std::map<Client *, size_t> gotMark;
   std::map<std::string, std::string> obsMirror0; std::map<std::string, std::vector<std::string> > obsIdx0;
   uint32 nSess; std::vector<std::string> log; bool bad; std::string tag; std::vector<std::string> ix1, ix2;   // index entry names of v1 / v2
   IsoWorld() : v1(NULL), v2(NULL), obs(NULL), att(NULL), nSess(0), bad(false), tag("isolate") {}

   void Fail(const std::string & key, const std::string & what) { if (bad) return; bad = true; vh::viol(tag + "|" + key, what + " | attacker=" + att->root + " v1=" + v1->root + " v2=" + v2->root + " | last commands: " + Tail(log, 14)); }

   void Setup(int attackerSlot)
   {
      Options plain, self; self.reflectToSelf = true;
      Client * c[4]; for (int i = 0; i < 4; i++) c[i] = B.AddClient(i == 3 ? self : plain);      // the last non-attacker is the observer
      int vi = 0; Client * vs[3]; for (int i = 0; i < 4; i++) { if (i == attackerSlot) att = c[i]; else vs[vi++] = c[i]; }
      // the observer needs reflect-to-self whichever slot it got
      v1 = vs[0]; v2 = vs[1]; obs = vs[2];
      if (obs != c[3]) { MessageRef sp = GetMessageFromPool(PR_COMMAND_SETPARAMETERS); (void)sp()->AddBool(PR_NAME_REFLECT_TO_SELF, true); obs->Send(sp); }
      victims.push_back(v1); victims.push_back(v2); victims.push_back(obs);
      static const char * const subPool[] = {"/*/*/a", "b", "idx/*", "/*/*", "(a|b)", "a,idx", "*/x", "/*/*/*/*", "/*/*/idx", "*"};
      for (int i = 0; i < 2; i++) {
         Client * v = vs[i];
         MessageRef sd = GetMessageFromPool(PR_COMMAND_SETDATA); const char * ps[] = {"a", "a/x", "b", "idx"};
         for (int j = 0; j < 4; j++) (void)sd()->AddMessage(ps[j], Payload2(7, "v", (int32)R(100)));
         static const char * const extra[] = {"c", "a/y", "b/z/w"}; for (int j = 0; j < 3; j++) if (R(3) == 0) (void)sd()->AddMessage(extra[j], Payload2(7, "v", (int32)R(100)));
         v->Send(sd);
         MessageRef io = GetMessageFromPool(PR_COMMAND_INSERTORDEREDDATA); (void)io()->AddString(PR_NAME_KEYS, "idx"); for (int j = 0; j < 3; j++) (void)io()->AddMessage("", Payload(8, "i", j)); v->Send(io);
         std::vector<std::string> s = (i == 0 && R(2)) ? std::vector<std::string>() : PickSubs(subPool, sizeof(subPool) / sizeof(subPool[0]), 1 + R(3));
         if (i == 0 && s.empty()) { s.push_back("/*/*/a"); s.push_back("b"); }      // the prototype's pair
         MessageRef sp = GetMessageFromPool(PR_COMMAND_SETPARAMETERS);
         for (size_t j = 0; j < s.size(); j++) { FilterSpec f; if (R(3) == 0) { f = RandomFilter(); f.iv = (int32)R(100); vh::stat("victim_filtered_subscriptions"); } PutSub(*sp(), s[j], f, "v"); }   // filters never change what is marked
         (void)sp()->AddInt32("myparam", 42); if (R(2)) (void)sp()->AddBool(PR_NAME_SUBSCRIBE_QUIETLY, true);
         v->Send(sp); subs[v->id] = s;
      }
      subs[obs->id] = std::vector<std::string>(); subs[B.insp->GetSessionID()] = std::vector<std::string>();
      ignore.insert(att->id);
      B.Settle();
      if (!B.insp->Snapshot(before)) Abort("inspector not attached during setup");
      for (size_t i = 0; i < victims.size(); i++) { Client * v = victims[i]; p0[v] = B.ParamSnap(v); nodes0[v] = CountUnder(before, v->root, false); gotMark[v] = v->got.size(); }
      ix1 = before[v1->root + "/idx"].index; ix2 = before[v2->root + "/idx"].index;
      if (nodes0[v1] < 7 || ix1.size() != 3 || ix2.size() != 3) Abort("victim state was not built (expected >= 7 nodes and a 3-entry index)");
      CheckFreshIndexNames(before, v1->root + "/idx", "victim"); CheckFreshIndexNames(before, v2->root + "/idx", "victim");
      B.ObserverView(obs); obsMirror0 = Outside(obs->mirror); obsIdx0 = Outside(obs->idx);
      if (!obsMirror0.count(obs->root) || !obsMirror0.count(v1->root + "/idx/" + ix1[1])) { std::string all; for (std::map<std::string,std::string>::const_iterator it = obs->mirror.begin(); it != obs->mirror.end(); ++it) all += it->first + " "; Abort("observer view is incomplete (reflect-to-self not in effect?): obs=" + obs->root + " v1=" + v1->root + " att=" + att->root + " mirror: " + all); }
      nSess = B.NumSessions();
   }
   template<class M> M Outside(const M & m) const { M o; for (typename M::const_iterator it = m.begin(); it != m.end(); ++it) if (!Under(it->first, att->root)) o.insert(*it); return o; }

   // the isolation oracle; final adds the parts that cost a round trip per victim
   void Check(bool final)
   {
      if (bad) return;
      B.Settle(); vh::stat("snapshots");
      TreeSnap after; if (!B.insp->Snapshot(after)) { Fail("victim_disconnected", "the inspector session (a silent session without a socket) was detached from the server"); return; }
      for (size_t i = 0; i < victims.size(); i++) if (!victims[i]->alive || !B.SessionAttached(victims[i]->id)) { Fail("victim_disconnected", "session " + victims[i]->root + " is no longer attached / its connection was closed by the server"); return; }
      if (B.NumSessions() != nSess - (B.SessionAttached(att->id) ? 0 : 1)) { Fail("session_count", vh::fmt("server has %u sessions, expected %u", B.NumSessions(), nSess)); return; }
      std::vector<std::string> d = DiffSnap(before, after, att->root, att->id);
      if (!d.empty()) { Fail(DiffKind(d[0]), Join(d, "; ")); return; }
      vh::stat("victim_nodes_compared", (long)before.size());
      long checked = 0; std::string inv = CheckSubscriberInvariant(after, subs, ignore, &checked); vh::stat("invariant_node_checks", checked);
      if (!inv.empty()) { Fail("victim_subscriber_marks", inv); return; }
      for (size_t i = 0; i < victims.size(); i++) { Client * v = victims[i]; long own = CountUnder(after, v->root, false); uint32 cnt = B.insp->NodeCountOf(*v->session());
         if (own != nodes0[v] || (long)cnt != own) { Fail("victim_node_count", vh::fmt("%s owns %ld nodes (%ld at start), its node counter says %u", v->root.c_str(), own, nodes0[v], cnt)); return; } }
      vh::statmax("max_attacker_nodes", CountUnder(after, att->root, false));
      { long m = 0; for (TreeSnap::const_iterator it = after.begin(); it != after.end(); ++it) if (!Under(it->first, att->root) && it->second.subs.count(att->id)) m++; if (m) vh::stat("snapshots_with_attacker_marks_on_foreign_nodes"); }
      for (int i = 0; i < 2; i++) { Client * v = victims[i]; if (B.ParamSnap(v) != p0[v]) { Fail("victim_parameters_changed", "GETPARAMETERS of " + v->root + " differs (minus volatile fields): " + (v->params() ? std::string(v->params()->ToString()()) : std::string("<no reply>"))); return; } }
      if (!final) return;
      if (B.ParamSnap(obs) != p0[obs]) { Fail("victim_parameters_changed", "GETPARAMETERS of the observer differs"); return; }
      for (size_t i = 0; i < victims.size(); i++) if (!B.Ping(victims[i])) { Fail("victim_ping_unanswered", victims[i]->root); return; } else vh::stat("pings_answered");
      B.ObserverView(obs);
      if (Outside(obs->mirror) != obsMirror0 || Outside(obs->idx) != obsIdx0) { Fail("observer_view_changed", "GETDATA view of the observer differs outside the attacker's root"); return; }
      for (size_t i = 0; i < victims.size(); i++) { Client * v = victims[i];
         for (size_t j = gotMark[v]; j < v->got.size(); j++) { const Message & m = *v->got[j]();
            if (muscleInRange(m.what, (uint32)BEGIN_PR_COMMANDS, (uint32)END_PR_COMMANDS) || muscleInRange(m.what, (uint32)BEGIN_PR_RESULTS, (uint32)END_PR_RESULTS)) continue;
            vh::stat("user_messages_delivered_to_victims"); const String * s;
            if (m.FindString(PR_NAME_SESSION, &s).IsOK()) { vh::stat("delivered_with_session_field"); if (att->sid != s->Cstr()) { Fail("forged_session_field_delivered", std::string("a victim received a Message whose 'session' field says ") + s->Cstr()); return; } } } }
   }
   // the oracle must fire on a legitimate change: v2 removes one of its own index entries
   void SelfTest()
   {
      if (bad) return;
      MessageRef rd = GetMessageFromPool(PR_COMMAND_REMOVEDATA); (void)rd()->AddString(PR_NAME_KEYS, ("idx/" + ix2[1]).c_str()); v2->Send(rd); B.Settle();
      TreeSnap after; if (!B.insp->Snapshot(after)) { Fail("victim_disconnected", "the inspector session was detached from the server"); return; }
      std::vector<std::string> d = DiffSnap(before, after, att->root, att->id);
      if (d.empty()) Abort("oracle self-test: a victim removed an entry from its own index and the snapshot comparison stayed silent");
      const std::string e1 = "node changed(index): " + v2->root + "/idx", e2 = "node removed: " + v2->root + "/idx/" + ix2[1];
      if (d.size() == 2 && std::find(d.begin(), d.end(), e1) != d.end() && std::find(d.begin(), d.end(), e2) != d.end()) vh::stat("selftest_oracle_fired");
      else Fail("selftest_unexpected_effect", "a legitimate REMOVEDATA idx/<2nd entry> by " + v2->root + " changed: " + Join(d, "; "));
   }
};

static const uint32 kWhats[] = {PR_COMMAND_SETDATA, PR_COMMAND_REMOVEDATA, PR_COMMAND_INSERTORDEREDDATA, PR_COMMAND_REORDERDATA, PR_COMMAND_KICK, PR_COMMAND_ADDBANS, PR_COMMAND_REMOVEBANS, PR_COMMAND_ADDREQUIRES, PR_COMMAND_REMOVEREQUIRES,
                                PR_COMMAND_SETPARAMETERS, PR_COMMAND_REMOVEPARAMETERS, PR_COMMAND_JETTISONRESULTS, PR_COMMAND_SETDATATREES, PR_COMMAND_JETTISONDATATREES, PR_COMMAND_GETDATATREES, PR_COMMAND_GETDATA, PR_COMMAND_BATCH, 12345};
static bool IsWrite(uint32 w) { return w == PR_COMMAND_SETDATA || w == PR_COMMAND_REMOVEDATA || w == PR_COMMAND_INSERTORDEREDDATA || w == PR_COMMAND_REORDERDATA; }
static bool IsPriv(uint32 w) { return w == PR_COMMAND_KICK || w == PR_COMMAND_ADDBANS || w == PR_COMMAND_REMOVEBANS || w == PR_COMMAND_ADDREQUIRES || w == PR_COMMAND_REMOVEREQUIRES; }

static void RunIsolateCase(long k, uint64_t cs)
{
   g = vh::Rng(cs);
   IsoWorld W; W.Setup((int)R(4));
   Client * v1 = W.v1, * v2 = W.v2, * att = W.att;
   std::vector<std::string> keys;
   { const char * fixed[] = {"/*/*/a", "/*/*", "/*", "/*/*/*", "/*/*/idx", "/*/*/idx/*", "a", "*", "..", "*/..", "", "/", "//"}; for (size_t i = 0; i < sizeof(fixed) / sizeof(fixed[0]); i++) keys.push_back(fixed[i]); }
   const std::string i0 = W.ix1[0], i1 = W.ix1[1];
   keys.push_back("idx/" + i0); keys.push_back("/*/*/idx/" + i0);
   keys.push_back("../" + v1->sid + "/a"); keys.push_back(v1->root + "/a"); keys.push_back(v1->root + "/idx"); keys.push_back(v1->root); keys.push_back(v2->root + "/b");
   keys.push_back("/*/" + v1->sid); keys.push_back("/*/" + v1->sid + "/*"); keys.push_back("/*/" + v1->sid + "/idx/" + i0); keys.push_back(v1->root + "/idx/" + i1); keys.push_back(v2->root + "/idx/*");
   keys.push_back("/*/(" + v1->sid + "|" + v2->sid + ")/a"); keys.push_back("~" + att->sid); keys.push_back("/*/~" + att->sid + "/*"); keys.push_back(v1->root + "/newnode"); keys.push_back(v1->root + "/a/deeper");
   vh::statmax("max_key_shapes", (long)keys.size());
   const int nc = 30 + (int)R(91); bool aimedForeign = false, priv = false; uint64_t dig = 1469598103934665603ULL;
   for (int c = 0; c < nc && !W.bad; c++) {
      const uint32 w = kWhats[R(18)]; MessageRef m = GetMessageFromPool(w); std::string desc = vh::fmt("what=%u", w);
      std::function<void(MessageRef &, int)> fill = [&](MessageRef & mm, int depth) {
         const uint32 nk = 1 + R(3);
         for (uint32 i = 0; i < nk; i++) {
            const std::string & key = keys[R((uint32)keys.size())]; const uint32 shape = R(7); desc += vh::fmt(" %u[%s]", shape, key.c_str());
            if (IsWrite(mm()->what) && (key[0] == '/' || key.find("..") != std::string::npos)) aimedForeign = true;
            switch (shape) {
            case 0: case 1: (void)mm()->AddString(PR_NAME_KEYS, key.c_str()); break;                                           // path list of REMOVEDATA/KICK/GETDATA/INSERTORDERED/...
            case 2: (void)mm()->AddMessage(key.c_str(), Payload(666, "evil", 1)); break;                                         // SETDATA path / INSERTORDERED insert-before name
            case 3: (void)mm()->AddString(key.c_str(), R(2) ? i0.c_str() : "a"); break;                                                // REORDERDATA path -> before
            case 4: (void)mm()->AddBool(("SUBSCRIBE:" + key).c_str(), true); break;
            case 5: (void)mm()->AddString(PR_NAME_SESSION, R(2) ? v1->sid.c_str() : v1->root.c_str()); (void)mm()->AddInt32(PR_NAME_PRIVILEGE_BITS, -1); break;   // forgeries
            case 6: (void)mm()->AddInt32(PR_NAME_FLAGS, (int32)R(64)); break;
            }
         }
         if (mm()->what == PR_COMMAND_BATCH && depth < 2) for (int b = 0; b < 2; b++) { MessageRef sub = GetMessageFromPool(kWhats[R(17)]); desc += vh::fmt(" {what=%u", sub()->what); fill(sub, depth + 1); desc += "}"; if (IsPriv(sub()->what)) priv = true; (void)mm()->AddMessage(PR_NAME_KEYS, sub); }
      };
      fill(m, 0);
      if (R(5) == 0) { (void)m()->AddBool(PR_NAME_REMOVE_QUIETLY, true); desc += " quiet"; }
      if (IsPriv(w)) priv = true;
      att->Send(m); W.log.push_back(desc); dig = vh::fnvs(desc, dig);
      vh::stat("attacker_commands"); vh::stat(vh::fmt("cmd_%u", w));
      if (R(4) == 0 || c == nc - 1) { W.Check(c == nc - 1); if (!att->alive) { vh::stat("attacker_lost_connection"); break; } }
   }
   W.Check(true);
   vh::stat("attacker_bounced_accessdenied", att->CountWhat(PR_RESULT_ERRORACCESSDENIED)); vh::stat("attacker_bounced_unimplemented", att->CountWhat(PR_RESULT_ERRORUNIMPLEMENTED));
   W.SelfTest();
   vh::distinct(dig, aimedForeign && priv);
   if (vh::want_sample() && k % 7 == 0) vh::sample("isolate: " + Tail(W.log, 4));
}

// =====================================================================================================================
// departure (cut after every byte prefix)
// =====================================================================================================================
struct WitnessSpec { std::vector<std::string> subs; bool reflect; int maxItems; bool nodeA, nodeB, nodeAX, idx; bool slow; std::vector<std::string> meta;   // slow: 2 KB socket buffers (may be paused); meta: nodes whose names hold wildcard metacharacters
                     WitnessSpec() : reflect(false), maxItems(0), nodeA(false), nodeB(false), nodeAX(false), idx(false), slow(false) {} };
struct StreamSpec {
   long index; std::vector<MessageRef> msgs; std::string bytes; std::vector<size_t> starts;     // starts: frame offsets + total length
   std::vector<std::vector<std::string> > subsAfter;                                          // the leaver's subscriptions after n complete frames
   std::vector<std::map<std::string, FilterSpec> > filtAfter;                                 // ... and which of them carry a content filter
   std::vector<WitnessSpec> wit; std::string desc; size_t ioFrame;                              // ioFrame: which frame is the INSERTORDEREDDATA
   long escapedSubs;                                                                            // subscriptions with an escaped-literal clause anywhere in the stream
   std::vector<size_t> updFrames;                                                               // frames that update a node created by an earlier frame
   StreamSpec() : index(-1), ioFrame(1), escapedSubs(0) {}
};
static const char * const kLeaverSubs[] = {"/*/*/*", "b", "/*/*", "a/*", "(a|b)", "mine,b", "*/x", "idx/*", "/*/*/*/*", "*", "/*", "mine", "/*/*/(mine|idx)", "we\\*rd", "/*/*/br\\[ack\\]et", "com\\,ma,b"};
// subscriptions whose LAST clause is unique (a literal, possibly with escaped metacharacters, or a list of such): when all subscriptions of a
// session are like this the traversal takes the direct child-lookup path at that level instead of matching every child
static const char * const kLeaverUniqueSubs[] = {"we\\*rd", "o\\?dd", "b", "mine", "mine,b", "com\\,ma", "pa\\(ren\\),b", "/*/*/br\\[ack\\]et", "pi\\|pe", "back\\\\slash", "st\\*r,o\\?dd", "/*/*/a/we\\*rd"};
static const char * const kMetaSetup[] = {"we*rd", "o?dd", "com,ma", "a/we*rd"};            // created by witnesses before the leaver joins
static const char * const kMetaLate[] = {"br[ack]et", "pa(ren)", "pi|pe", "back\\slash", "st*r", "b2"};   // created by a remaining session while the leaver is connected
static const char * const kWitnessSubs[] = {"/*/*/*", "/*/*/*/*", "/*/*", "a", "b", "(a|b)", "a,idx", "idx/*", "*/x", "/*", "*", "/*/*/a/*", "c,b"};
#define NEL(a) (sizeof(a) / sizeof((a)[0]))

static void GenStream(uint64_t seed, long s, StreamSpec & S)
{
   vh::Rng keep = g; g = vh::Rng(vh::case_seed(seed, STREAM_CUTGEN, (uint64_t)s));
   S = StreamSpec(); S.index = s;
   const int nw = 1 + (int)R(2);
   for (int i = 0; i < nw; i++) { WitnessSpec w; w.subs = PickSubs(kWitnessSubs, NEL(kWitnessSubs), 2 + R(2)); w.reflect = (R(4) == 0); w.maxItems = (R(4) == 0) ? 1 + (int)R(3) : 0; w.nodeA = R(2); w.nodeB = R(4) != 0; w.nodeAX = R(2); w.idx = R(2);
      for (size_t j = 0; j < NEL(kMetaSetup); j++) if (R(3) == 0) w.meta.push_back(kMetaSetup[j]);
      if (i == 0 && R(2)) { w.slow = true; bool have = false; for (size_t j = 0; j < w.subs.size(); j++) if (CanonSub(w.subs[j]) == "*/*/*") have = true; if (!have) w.subs.push_back("/*/*/*"); }   // a slow witness sees every depth-3 node
      S.wit.push_back(w); }
   std::vector<std::string> cur; std::vector<std::string> d; std::map<std::string, FilterSpec> curF;
   // frame 0: four nodes
   { MessageRef sd = GetMessageFromPool(PR_COMMAND_SETDATA); const char * ps[] = {"a", "a/x", "b", "idx"}; for (int j = 0; j < 4; j++) (void)sd()->AddMessage(ps[j], Payload(7, "v", (int32)R(100))); S.msgs.push_back(sd); d.push_back("SETDATA a a/x b idx"); }
   // frame 1: two ordered children
   { MessageRef io = GetMessageFromPool(PR_COMMAND_INSERTORDEREDDATA); (void)io()->AddString(PR_NAME_KEYS, "idx"); for (int j = 0; j < 2; j++) (void)io()->AddMessage("", Payload(8, "i", j)); S.msgs.push_back(io); d.push_back("INSERTORDERED idx x2"); }
   // frame 2: two subscriptions
   const bool uniqueOnly = (R(3) == 0);     // all of the leaver's subscriptions end in a unique clause (direct-lookup traversal)
   { std::vector<std::string> two = uniqueOnly ? PickSubs(kLeaverUniqueSubs, NEL(kLeaverUniqueSubs), 2) : (R(3) == 0) ? std::vector<std::string>() : PickSubs(kLeaverSubs, NEL(kLeaverSubs), 2); if (two.size() < 2) { two.clear(); two.push_back("/*/*/*"); two.push_back("b"); }
     MessageRef sp = GetMessageFromPool(PR_COMMAND_SETPARAMETERS); std::string dd = "SUBSCRIBE";
     for (size_t j = 0; j < two.size(); j++) { FilterSpec f; if (R(2)) f = RandomFilter(); PutSub(*sp(), two[j], f, "w"); cur.push_back(two[j]); if (f.kind) curF[two[j]] = f; dd += (j ? " + " : " ") + two[j] + ShowFilter(f, "w"); }
     if (R(3) == 0) (void)sp()->AddBool(PR_NAME_SUBSCRIBE_QUIETLY, true); if (R(4) == 0) (void)sp()->AddBool(PR_NAME_REFLECT_TO_SELF, true);
     S.msgs.push_back(sp); d.push_back(dd); }
   // subsAfter[n] = the leaver's subscriptions after n complete frames (index 0 = nothing received yet)
   // in half of the streams the subscriptions come first (then far more prefixes end with the leaver subscribed)
   const bool subFirst = R(2); if (subFirst) { std::rotate(S.msgs.begin(), S.msgs.begin() + 2, S.msgs.end()); std::rotate(d.begin(), d.begin() + 2, d.end()); }
   S.ioFrame = subFirst ? 2 : 1;
   S.subsAfter.clear(); S.subsAfter.push_back(std::vector<std::string>()); S.filtAfter.push_back(std::map<std::string, FilterSpec>());
   for (int j = 1; j <= 3; j++) { const bool have = subFirst || j == 3; S.subsAfter.push_back(have ? cur : std::vector<std::string>()); S.filtAfter.push_back(have ? curF : std::map<std::string, FilterSpec>()); }
   // further commands until the stream is 470..700 bytes long
   const uint32 wantExtra = R(4); uint32 extra = 0; size_t len = FrameStream(S.msgs).size();
   for (int tries = 0; tries < 40 && (extra < wantExtra || len < 470); tries++) {
      MessageRef m; std::vector<std::string> next = cur; std::map<std::string, FilterSpec> nextF = curF; std::string what;
      switch ((S.wit[0].slow && extra == 0 && tries < 3) ? 10 : R(13)) {     // streams with a slow witness update a node that witness already knows
      case 0: m = GetMessageFromPool(PR_COMMAND_REMOVEDATA); { const char * kk[] = {"a", "idx/*", "*", "idx/I0"}; const char * key = kk[R(4)]; (void)m()->AddString(PR_NAME_KEYS, key); what = std::string("REMOVEDATA ") + key; } break;
      case 1: m = GetMessageFromPool(PR_COMMAND_GETDATA); (void)m()->AddString(PR_NAME_KEYS, "/*/*/*"); what = "GETDATA /*/*/*"; break;
      case 2: m = GetMessageFromPool(PR_COMMAND_SETDATA); { const char * p = R(2) ? "c" : "a/x/deep"; (void)m()->AddMessage(p, Payload(9, "v", (int32)R(100))); what = std::string("SETDATA ") + p; } break;
      case 3: m = GetMessageFromPool(PR_COMMAND_REORDERDATA); (void)m()->AddString("idx/I1", "I0"); what = "REORDER idx/I1<I0"; break;
      case 4: { std::vector<std::string> one = uniqueOnly ? PickSubs(kLeaverUniqueSubs, NEL(kLeaverUniqueSubs), 1, cur) : PickSubs(kLeaverSubs, NEL(kLeaverSubs), 1, cur); if (one.empty()) continue; m = GetMessageFromPool(PR_COMMAND_SETPARAMETERS); FilterSpec f; if (R(2)) f = RandomFilter(); PutSub(*m(), one[0], f, "w"); next.push_back(one[0]); if (f.kind) nextF[one[0]] = f; what = "SUBSCRIBE " + one[0] + ShowFilter(f, "w"); } break;
      case 5: { if (cur.empty()) continue; const size_t wh = R((uint32)cur.size()); m = GetMessageFromPool(PR_COMMAND_REMOVEPARAMETERS); (void)m()->AddString(PR_NAME_KEYS, EscapeRegexTokens(String(("SUBSCRIBE:" + cur[wh]).c_str()))); what = "UNSUBSCRIBE " + cur[wh]; nextF.erase(cur[wh]); next.erase(next.begin() + wh); } break;
      case 6: m = GetMessageFromPool(PR_COMMAND_PING); (void)m()->AddInt32("n", (int32)R(1000)); what = "PING"; break;
      case 7: case 8: { if (cur.empty()) continue; const std::string & pat = cur[R((uint32)cur.size())];        // same subscription again with another filter (or none): the path set stays
                 FilterSpec f; if (!curF.count(pat) || R(3)) f = RandomFilter(); m = GetMessageFromPool(PR_COMMAND_SETPARAMETERS); PutSub(*m(), pat, f, "w");
                 if (f.kind) nextF[pat] = f; else nextF.erase(pat); what = "REFILTER " + pat + ShowFilter(f, "w"); } break;
      case 10: case 11: m = GetMessageFromPool(PR_COMMAND_SETDATA); { const char * kk[] = {"a", "b", "a/x"}; const char * key = kk[R(3)]; (void)m()->AddMessage(key, Payload(7, "v", 100 + (int32)R(100))); what = std::string("UPDATE ") + key; } break;   // a node the witnesses already know
      default: { std::vector<std::string> one = uniqueOnly ? PickSubs(kLeaverUniqueSubs, NEL(kLeaverUniqueSubs), 1, cur) : PickSubs(kLeaverSubs, NEL(kLeaverSubs), 1, cur); if (one.empty()) continue; m = GetMessageFromPool(PR_COMMAND_BATCH);
                 MessageRef a = GetMessageFromPool(PR_COMMAND_SETDATA); (void)a()->AddMessage("d", Payload(9, "v", (int32)R(100))); (void)m()->AddMessage(PR_NAME_KEYS, a);
                 MessageRef b = GetMessageFromPool(PR_COMMAND_SETPARAMETERS); FilterSpec f; if (R(2)) f = RandomFilter(); PutSub(*b(), one[0], f, "w"); (void)m()->AddMessage(PR_NAME_KEYS, b); next.push_back(one[0]); if (f.kind) nextF[one[0]] = f; what = "BATCH{SETDATA d, SUBSCRIBE " + one[0] + ShowFilter(f, "w") + "}"; } break;
      }
      const size_t add = Frame(*m()).size(); if (len + add > 700) continue;
      if (what.compare(0, 7, "UPDATE ") == 0) S.updFrames.push_back(S.msgs.size());
      S.msgs.push_back(m); cur = next; curF = nextF; S.subsAfter.push_back(cur); S.filtAfter.push_back(curF); len += add; extra++; d.push_back(what);
   }
   { std::set<std::string> all; for (size_t i = 0; i < S.subsAfter.size(); i++) for (size_t j = 0; j < S.subsAfter[i].size(); j++) if (S.subsAfter[i][j].find('\\') != std::string::npos) all.insert(S.subsAfter[i][j]); S.escapedSubs = (long)all.size(); }
   S.bytes = FrameStream(S.msgs, &S.starts);
   if (S.bytes.size() < 470 || S.bytes.size() > 700) Abort(vh::fmt("generated stream has %zu bytes, wanted 470..700", S.bytes.size()));
   if (S.subsAfter.size() != S.msgs.size() + 1 || S.filtAfter.size() != S.subsAfter.size()) Abort("subscription model out of step with the frames");
   S.desc = vh::fmt("stream %ld (%zu bytes, %zu frames, %zu witnesses): ", s, S.bytes.size(), S.msgs.size(), S.wit.size()) + Join(d, " | ", 20);
   g = keep;
}

// which stream / which prefix length is case k?  stream s owns len(s)+1 consecutive cases (prefix 0..len)
static std::vector<long> g_cum(1, 0);   // g_cum[s] = first case of stream s
static void Locate(uint64_t seed, long k, long & s, long & cut) { StreamSpec tmp; while (g_cum.back() <= k) { GenStream(seed, (long)g_cum.size() - 1, tmp); g_cum.push_back(g_cum.back() + (long)tmp.bytes.size() + 1); } s = (long)(std::upper_bound(g_cum.begin(), g_cum.end(), k) - g_cum.begin()) - 1; cut = k - g_cum[s]; }

static long g_lastQueuedKnown = 0, g_lastLateMarked = 0;   // evidence of the last RunCut(), for the regress witnesses
// what else happens around the cut
struct CutPlan {
   int closeStyle;          // 0 = close, 1 = half-close (shutdown of the write side only)
   bool pause;              // witness 0 (slow: 2 KB socket buffers) stops reading after pauseAt bytes of the prefix; a remaining session ("filler")
   size_t pauseAt;          //   then uploads a node of bigBytes so that the server->witness connection backs up and whole Messages wait in the
   size_t bigBytes;         //   witness session's outgoing queue while the rest of the prefix and the cut happen; it resumes and drains before the audit
   std::string lateName;    // a remaining session creates this node after the prefix was written ("" = none) ...
   bool lateByFiller;       // ... the filler (if the stream has one) or witness 0
   CutPlan() : closeStyle(0), pause(false), pauseAt(0), bigBytes(0), lateByFiller(false) {}
   explicit CutPlan(int style) : closeStyle(style), pause(false), pauseAt(0), bigBytes(0), lateByFiller(false) {}
};
static bool RunCut(const StreamSpec & S, size_t cut, const CutPlan & P, const std::string & tag, bool doStats)
{
   bool bad = false; const int closeStyle = P.closeStyle;
   std::string ctx = vh::fmt("cut after %zu of %zu bytes, close style %d", cut, S.bytes.size(), closeStyle) + (P.pause ? vh::fmt(", witness 0 paused after %zu bytes behind a %zu-byte node", P.pauseAt, P.bigBytes) : std::string()) + (P.lateName.empty() ? std::string() : ", late node " + P.lateName) + " | " + S.desc;
   #define CUTFAIL(key, what) do { if (!bad) { bad = true; vh::viol(tag + "|" + (key), std::string(what) + " | " + ctx); } } while (0)
   Bench B;
   std::vector<Client *> wit; std::map<uint32, std::vector<std::string> > subs; subs[B.insp->GetSessionID()] = std::vector<std::string>();
   for (size_t i = 0; i < S.wit.size(); i++) {
      const WitnessSpec & ws = S.wit[i]; Options o; o.reflectToSelf = ws.reflect; o.handshake = false; o.slow = ws.slow; Client * w = B.AddClient(o); wit.push_back(w);
      MessageRef sd = GetMessageFromPool(PR_COMMAND_SETDATA); (void)sd()->AddMessage("mine", Payload2(7, "w", (int32)i));
      if (ws.nodeA) (void)sd()->AddMessage("a", Payload2(7, "w", 1)); if (ws.nodeB) (void)sd()->AddMessage("b", Payload2(7, "w", 2)); if (ws.nodeAX) (void)sd()->AddMessage("a/x", Payload2(7, "w", 3)); if (ws.idx) (void)sd()->AddMessage("idx", Payload2(7, "w", 4));
      for (size_t j = 0; j < ws.meta.size(); j++) (void)sd()->AddMessage(ws.meta[j].c_str(), Payload2(7, "w", 5 + (int32)j));
      w->Send(sd);
      if (ws.idx) { MessageRef io = GetMessageFromPool(PR_COMMAND_INSERTORDEREDDATA); (void)io()->AddString(PR_NAME_KEYS, "idx"); for (int j = 0; j < 2; j++) (void)io()->AddMessage("", Payload(8, "i", j)); w->Send(io); }
      MessageRef sp = GetMessageFromPool(PR_COMMAND_SETPARAMETERS); for (size_t j = 0; j < ws.subs.size(); j++) (void)sp()->AddBool(("SUBSCRIBE:" + ws.subs[j]).c_str(), true);
      if (ws.maxItems) (void)sp()->AddInt32(PR_NAME_MAX_UPDATE_MESSAGE_ITEMS, ws.maxItems);
      w->Send(sp); subs[w->id] = ws.subs;
   }
   Client * filler = NULL; if (S.wit[0].slow) { Options o; o.handshake = false; filler = B.AddClient(o); subs[filler->id] = std::vector<std::string>(); }   // a remaining session that acts while the leaver is connected
   std::set<std::string> lateCreated;
   B.Settle();
   TreeSnap s0; if (!B.insp->Snapshot(s0)) Abort("inspector not attached during setup"); std::vector<std::string> p0; for (size_t i = 0; i < wit.size(); i++) p0.push_back(B.ParamSnap(wit[i]));
   const uint32 nSess0 = B.NumSessions();
   { std::string inv = CheckSubscriberInvariant(s0, subs); if (!inv.empty()) CUTFAIL("precut_subscriber_table", "before the leaver joined: " + inv); }
   if (doStats) for (size_t i = 0; i < wit.size(); i++) CheckFreshIndexNames(s0, wit[i]->root + "/idx", "witness");

   // ---- the leaver: a raw socket, the harness writes the prefix itself
   RawPeer * L = B.AddRaw(); B.Settle();
   size_t off = 0; const bool pausing = P.pause && filler != NULL;
   for (int phase = pausing ? 0 : 1; phase < 2; phase++) {
      const size_t upto = (phase == 0) ? std::min(P.pauseAt, cut) : cut;
      while (off < upto) { size_t n = std::min(upto - off, (size_t)(R(5) == 0 ? 700 : 1 + R(200))); size_t w = L->Write(S.bytes.data() + off, n); off += w; B.Settle(2); if (w == 0 && !B.SessionAttached(L->id)) break; }
      B.Settle();
      if (phase == 0) {   // witness 0 knows everything so far; now it stops reading and its connection is filled up
         wit[0]->readPaused = true;
         MessageRef sd = GetMessageFromPool(PR_COMMAND_SETDATA); MessageRef pl = Payload2(7, "w", 8); (void)pl()->AddString("pad", std::string(P.bigBytes, 'p').c_str()); (void)sd()->AddMessage("big", pl); filler->Send(sd); B.Settle();
         lateCreated.insert(filler->root + "/big");
      }
   }
   if (!P.lateName.empty()) {   // a remaining session creates a node (with a metacharacter name, mostly) after the leaver's subscriptions were placed
      Client * who = (filler && P.lateByFiller) ? filler : wit[0];
      MessageRef sd = GetMessageFromPool(PR_COMMAND_SETDATA); (void)sd()->AddMessage(P.lateName.c_str(), Payload2(7, "w", 9)); who->Send(sd); B.Settle();
      lateCreated.insert(who->root + "/" + P.lateName);
   }
   if (off != cut) { if (B.SessionAttached(L->id)) Abort("could not write the prefix although the session is attached"); CUTFAIL("session_dropped_before_cut", vh::fmt("the server dropped the leaver after %zu bytes of a well-formed stream", off)); }
   size_t complete = 0; while (complete + 1 < S.starts.size() && S.starts[complete + 1] <= cut) complete++;
   TreeSnap pre; if (!B.insp->Snapshot(pre)) { CUTFAIL("inspector_detached", "the leaver's commands detached the inspector session"); return false; }
   // self-test of the trace oracle: before the cut the leaver's session node (at least) exists and must be seen
   const long nodesBefore = CountUnder(pre, L->root, true);
   if (!bad) { if (nodesBefore < 1) Abort("trace oracle self-test: the leaver's session node is not visible before the cut"); if (doStats) vh::stat("selftest_trace_oracle_fired"); }
   const long marksBefore = MarksOf(pre, L->id);
   if (doStats && complete == S.ioFrame + 1) CheckFreshIndexNames(pre, L->root + "/idx", "leaver");
   if (!bad) { std::map<uint32, std::vector<std::string> > with = subs; with[L->id] = S.subsAfter[complete]; std::string inv = CheckSubscriberInvariant(pre, with); if (!inv.empty()) CUTFAIL("precut_subscriber_table", vh::fmt("with the leaver connected (%zu complete frames): ", complete) + inv); }
   long shown = 0; for (size_t i = 0; i < wit.size(); i++) for (std::map<std::string, std::string>::const_iterator it = wit[i]->mirror.begin(); it != wit[i]->mirror.end(); ++it) if (Under(it->first, L->root)) shown++;
   std::vector<long> noticesBefore; for (size_t i = 0; i < wit.size(); i++) noticesBefore.push_back(wit[i]->removalNotices);
   int cachedBefore = B.insp->CachedTablesWithKey(L->id);
   // how many remaining nodes match the path of a filtered subscription of the leaver but fail its filter (marked all the same), and how many
   // of those are covered by no other subscription of the leaver that is unfiltered or whose filter the node passes
   long filteredSubs = (long)S.filtAfter[complete].size(), failNodes = 0, failUncovered = 0;
   if (filteredSubs) for (TreeSnap::const_iterator it = pre.begin(); it != pre.end(); ++it) {
      if (Under(it->first, L->root)) continue;
      bool fails = false, covered = false; const std::vector<std::string> & ls = S.subsAfter[complete];
      for (size_t i = 0; i < ls.size(); i++) { if (!RefPathMatch(ls[i], it->first)) continue; std::map<std::string, FilterSpec>::const_iterator f = S.filtAfter[complete].find(ls[i]); if (f != S.filtAfter[complete].end() && !FilterPasses(f->second, it->second.payload, "w")) fails = true; else covered = true; }
      if (fails) { failNodes++; if (!covered) failUncovered++; }
   }

   // escaped-literal clauses in force, nodes with metacharacter names that stay behind, the leaver's mark on the late node
   long escapedNow = 0; for (size_t i = 0; i < S.subsAfter[complete].size(); i++) if (S.subsAfter[complete][i].find('\\') != std::string::npos) escapedNow++;
   long metaNodes = 0, lateMarked = 0; for (TreeSnap::const_iterator it = pre.begin(); it != pre.end(); ++it) { if (Under(it->first, L->root)) continue; if (HasMeta(it->first.substr(it->first.rfind('/') + 1))) metaNodes++; if (lateCreated.count(it->first) && it->second.subs.count(L->id)) lateMarked++; }
   // evidence that the backlog state was reached: updates of leaver nodes the paused witness already knows, waiting as whole Messages in its session's queue
   long queuedKnown = 0; uint32 qlen = 0;
   if (pausing) { AbstractMessageIOGateway * gw = wit[0]->session()->GetGateway()(); if (gw) { Queue<MessageRef> & q = gw->GetOutgoingMessageQueue(); qlen = q.GetNumItems();
      for (uint32 i = 0; i < qlen; i++) if (q[i]() && q[i]()->what == PR_RESULT_DATAITEMS) for (MessageFieldNameIterator it = q[i]()->GetFieldNameIterator(B_MESSAGE_TYPE); it.HasData(); it++) if (Under(it.GetFieldName()(), L->root) && wit[0]->mirror.count(it.GetFieldName()())) queuedKnown++; } }

   g_lastQueuedKnown = queuedKnown; g_lastLateMarked = lateMarked;
   // ---- the cut
   if (closeStyle == 1) L->HalfClose(); else L->Close();
   B.Settle();
   if (pausing) { wit[0]->readPaused = false; B.Settle(); }     // the slow reader resumes and drains completely before the audit

   // ---- oracle at the quiescent point
   TreeSnap s1; if (!B.insp->Snapshot(s1)) { CUTFAIL("inspector_detached", "the inspector session was detached when the leaver departed"); return false; }
   if (B.SessionAttached(L->id)) CUTFAIL("session_not_removed", "the session of the closed connection is still attached");
   { long n = CountUnder(s1, L->root, true); if (n) CUTFAIL("nodes_remain", vh::fmt("%ld node(s) of the departed session %s remain", n, L->root.c_str())); }
   { long m = MarksOf(s1, L->id); if (m) { std::string where; for (TreeSnap::const_iterator it = s1.begin(); it != s1.end(); ++it) if (it->second.subs.count(L->id)) { where = it->first + ShowSubs(it->second.subs); break; } CUTFAIL("subscriber_marks_remain", vh::fmt("%ld subscriber reference(s) of departed session %u remain, e.g. on ", m, L->id) + where); } }
   { uint32 total = 0; int c = B.insp->CachedTablesWithKey(L->id, &total); if (c > 0) CUTFAIL("cached_subscriber_table_mentions_departed", vh::fmt("%d of %u cached subscriber tables still contain departed session id %u", c, total, L->id)); }
   { long checked = 0; std::string inv = CheckSubscriberInvariant(s1, subs, std::set<uint32>(), &checked); if (doStats) vh::stat("invariant_node_checks", checked); if (!inv.empty()) CUTFAIL("subscriber_table_mismatch", inv); }
   for (size_t i = 0; i < wit.size(); i++) for (std::map<std::string, std::string>::const_iterator it = wit[i]->mirror.begin(); it != wit[i]->mirror.end(); ++it) if (Under(it->first, L->root)) { CUTFAIL("witness_not_told", "witness " + wit[i]->root + " (subscriptions " + Join(S.wit[i].subs, " ") + ") was shown " + it->first + " and never told that it vanished"); break; }
   for (size_t i = 0; i < wit.size(); i++) { long own = CountUnder(s1, wit[i]->root, false); uint32 cnt = B.insp->NodeCountOf(*wit[i]->session()); if ((long)cnt != own) CUTFAIL("node_count", vh::fmt("%s owns %ld nodes, its node counter says %u", wit[i]->root.c_str(), own, cnt)); }
   // each witness's replica (built from DATAITEMS / REMOVED_DATAITEMS only) == the tree restricted to its subscriptions (own subtree left out on both sides)
   for (size_t i = 0; i < wit.size() && !bad; i++) {
      std::map<std::string, std::string> want, have;
      for (TreeSnap::const_iterator it = s1.begin(); it != s1.end(); ++it) { if (Under(it->first, wit[i]->root)) continue; for (size_t j = 0; j < S.wit[i].subs.size(); j++) if (RefPathMatch(S.wit[i].subs[j], it->first)) { want[it->first] = it->second.payload; break; } }
      for (std::map<std::string, std::string>::const_iterator it = wit[i]->mirror.begin(); it != wit[i]->mirror.end(); ++it) if (!Under(it->first, wit[i]->root)) have.insert(*it);
      if (doStats) vh::stat("replica_entries_compared", (long)want.size());
      if (want != have) { std::string why; for (std::map<std::string, std::string>::const_iterator it = have.begin(); it != have.end(); ++it) { if (!want.count(it->first)) why += " stale:" + it->first; else if (want[it->first] != it->second) why += " outdated:" + it->first; } for (std::map<std::string, std::string>::const_iterator it = want.begin(); it != want.end(); ++it) if (!have.count(it->first)) why += " missing:" + it->first;
         CUTFAIL("witness_replica_differs", "replica of witness " + wit[i]->root + " (subscriptions " + Join(S.wit[i].subs, " ") + ") differs from the tree:" + why); }
   }
   { std::vector<std::string> d0 = DiffSnap(s0, s1), d; for (size_t i = 0; i < d0.size(); i++) if (d0[i].compare(0, 14, "node created: ") != 0 || !lateCreated.count(d0[i].substr(14))) d.push_back(d0[i]); if (!d.empty()) CUTFAIL("remaining_state_differs", "tree differs from the snapshot taken before the leaver joined: " + Join(d, "; ")); }
   if (B.NumSessions() != nSess0) CUTFAIL("session_count", vh::fmt("%u sessions attached, %u before the leaver joined", B.NumSessions(), nSess0));
   for (size_t i = 0; i < wit.size() && !bad; i++) {
      if (!wit[i]->alive) { CUTFAIL("witness_disconnected", wit[i]->root); break; }
      if (B.ParamSnap(wit[i]) != p0[i]) { CUTFAIL("witness_parameters_changed", wit[i]->root); break; }
      if (!B.Ping(wit[i])) { CUTFAIL("ping_unanswered", wit[i]->root); break; }
      // anything that arrives late (after the ping) about the leaver would mean the notice was held back
      for (std::map<std::string, std::string>::const_iterator it = wit[i]->mirror.begin(); it != wit[i]->mirror.end(); ++it) if (Under(it->first, L->root)) { CUTFAIL("witness_not_told", "after the ping: " + it->first); break; }
   }
   if (doStats) {
      vh::stat("cuts"); if (closeStyle == 1) vh::stat("cuts_half_close");
      const size_t fo = cut - S.starts[complete];
      if (cut == S.bytes.size() || fo == 0) vh::stat("cuts_at_frame_boundary"); else if (fo < 8) vh::stat("cuts_mid_header"); else vh::stat("cuts_mid_body");
      if (cut == 0) vh::stat("streams"); if (cut == S.bytes.size()) vh::stat("streams_completed");
      vh::stat("leaver_nodes_before_cut", nodesBefore); if (nodesBefore > 1) vh::stat("cuts_with_leaver_nodes"); if (marksBefore) vh::stat("cuts_with_leaver_marks_on_nodes"); vh::stat("leaver_marks_before_cut", marksBefore);
      if (cachedBefore > 0) vh::stat("cuts_with_leaver_in_cached_tables");
      vh::stat("cut_escaped_literal_clauses", escapedNow); if (escapedNow) vh::stat("cuts_with_escaped_literal_clause"); vh::stat("cut_metachar_nodes_at_departure", metaNodes);
      if (lateMarked) vh::stat("cuts_with_leaver_mark_on_late_node"); if (!lateCreated.empty()) vh::stat("cuts_with_late_node");
      if (pausing) { vh::stat("cuts_with_paused_witness"); vh::statmax("max_backlog_queue_len", (long)qlen); if (qlen) vh::stat("cuts_with_backlog_in_session_queue"); vh::stat("updates_queued_behind_backlog_at_removal", queuedKnown); if (queuedKnown) vh::stat("cuts_with_update_queued_behind_backlog"); }
      vh::stat("cut_leaver_filtered_subscriptions", filteredSubs); if (filteredSubs) vh::stat("cuts_with_leaver_filtered_subscriptions");
      vh::stat("cut_nodes_matching_path_but_failing_filter", failNodes); vh::stat("cut_nodes_failing_filter_not_otherwise_covered", failUncovered); if (failUncovered) vh::stat("cuts_with_marked_node_failing_every_leaver_filter");
      vh::stat("paths_shown_to_witnesses", shown); if (shown) vh::stat("cuts_with_witness_shown_leaver_paths");
      long told = 0; for (size_t i = 0; i < wit.size(); i++) told += wit[i]->removalNotices - noticesBefore[i]; vh::stat("removal_notices_after_cut", told);
      vh::statmax("max_complete_frames", (long)complete); vh::statmax("max_stream_bytes", (long)S.bytes.size());
   }
   #undef CUTFAIL
   return !bad;
}

static StreamSpec g_stream;
static void RunCutCase(long k, uint64_t seed)
{
   long s, cut; Locate(seed, k, s, cut);
   if (g_stream.index != s) GenStream(seed, s, g_stream);
   g = vh::Rng(vh::case_seed(seed, STREAM_CUTCASE, (uint64_t)k));
   CutPlan P((R(4) == 0) ? 1 : 0);
   if (g_stream.wit[0].slow && R(2)) { P.pause = true; P.bigBytes = 6000 + R(34000);
      std::vector<size_t> fb; for (size_t i = 0; i < g_stream.starts.size(); i++) if ((long)g_stream.starts[i] <= cut) fb.push_back(g_stream.starts[i]);
      P.pauseAt = (R(4) != 0) ? fb[R((uint32)fb.size())] : (size_t)R((uint32)cut + 1);
      // often: stop reading right before a frame that updates a node the witness already knows, when the cut lies behind that frame
      for (size_t i = 0; i < g_stream.updFrames.size(); i++) { const size_t u = g_stream.updFrames[i]; if ((long)g_stream.starts[u + 1] <= cut && R(2)) { P.pauseAt = g_stream.starts[u]; break; } } }
   if (R(3) != 0) { P.lateName = kMetaLate[R((uint32)NEL(kMetaLate))]; P.lateByFiller = R(2); }
   RunCut(g_stream, (size_t)cut, P, "cut", true);
   vh::distinct(vh::fnvs(g_stream.bytes, (uint64_t)cut * 1000003ULL + 7), cut > 0);
   if (cut == 0 && vh::want_sample()) vh::sample(g_stream.desc);
}

// =====================================================================================================================
// regress: fixed witnesses, bench self-checks
// =====================================================================================================================
static void RegressMatcher()
{
   // the independent reference against muscle's own StringMatcher, clause by clause, on the shapes the generators use
   const char * pats[] = {"*", "a", "b", "(a|b)", "a,idx", "mine,b", "(mine|idx)", "idx", "c,b", "x"}; const char * names[] = {"a", "b", "idx", "mine", "x", "c", "ab", "I0", "", "a,idx"};
   long n = 0;
   for (size_t i = 0; i < NEL(pats); i++) { StringMatcher sm; if (sm.SetPattern(pats[i]).IsError()) Abort("SetPattern failed"); for (size_t j = 0; j < NEL(names); j++) { n++; if (sm.Match(names[j]) != RefClauseMatch(pats[i], names[j])) Abort(vh::fmt("reference clause matcher disagrees with StringMatcher on pattern '%s' name '%s'", pats[i], names[j])); } }
   if (!RefPathMatch("a", "/h/1/a") || RefPathMatch("a", "/h/1/a/x") || !RefPathMatch("/*/*", "/h/1") || RefPathMatch("/*/*", "/") || !RefPathMatch("*/x", "/h/1/a/x") || RefPathMatch("/*", "/h/1")) Abort("reference path matcher is wrong on the fixed table");
   vh::stat("regress_matcher_comparisons", n);
}
static void RegressSlowClient()
{
   Bench B; Options slow; slow.slow = true; Client * s = B.AddClient(slow); Client * w = B.AddClient();
   MessageRef sp = GetMessageFromPool(PR_COMMAND_SETPARAMETERS); (void)sp()->AddBool("SUBSCRIBE:/*/*/*", true); s->Send(sp); B.Settle();
   s->readPaused = true;
   for (int i = 0; i < 200; i++) { MessageRef sd = GetMessageFromPool(PR_COMMAND_SETDATA); MessageRef pl = GetMessageFromPool(5); (void)pl()->AddString("pad", std::string(1000, 'x').c_str()); (void)sd()->AddMessage(vh::fmt("n%03d", i).c_str(), pl); w->Send(sd); }
   B.Settle();
   const uint32 q = Bench::ServerSideQueueLength(*s->session());
   if (q == 0) Abort("slow client: the server-side gateway queue did not build up with 2 KB socket buffers");
   vh::statmax("max_regress_slow_queue", (long)q);
   s->readPaused = false; B.Settle();
   if (Bench::ServerSideQueueLength(*s->session()) != 0 || s->mirror.size() != 200) Abort(vh::fmt("slow client: after resuming, queue=%u mirror=%zu (expected 0 / 200)", Bench::ServerSideQueueLength(*s->session()), s->mirror.size()));
}
static void RegressCutAfter()
{
   Bench B; Client * w = B.AddClient(); Client * c = B.AddClient();
   MessageRef sp = GetMessageFromPool(PR_COMMAND_SETPARAMETERS); (void)sp()->AddBool("SUBSCRIBE:/*/*/*", true); w->Send(sp); B.Settle();
   MessageRef sd = GetMessageFromPool(PR_COMMAND_SETDATA); (void)sd()->AddMessage("first", Payload(1, "v", 1)); c->Send(sd); B.Settle();
   const uint64 w0 = c->BytesWritten();
   MessageRef big = GetMessageFromPool(PR_COMMAND_SETDATA); MessageRef pl = GetMessageFromPool(5); (void)pl()->AddString("pad", std::string(300, 'y').c_str()); (void)big()->AddMessage("second", pl);
   c->CutAfter(100); c->Send(big); B.Settle();
   if (c->alive || c->BytesWritten() - w0 != 100) Abort(vh::fmt("CutAfter(100): alive=%d, %llu bytes went out", (int)c->alive, (unsigned long long)(c->BytesWritten() - w0)));
   TreeSnap s; B.insp->Snapshot(s);
   if (B.SessionAttached(c->id) || CountUnder(s, c->root, true) != 0) vh::viol("regress|cutafter_session_remains", "client cut 100 bytes into a 350-byte frame: session or nodes remain");
   if (w->mirror.count(c->root + "/first") || w->mirror.count(c->root + "/second")) vh::viol("regress|cutafter_witness_not_told", "witness still mirrors a node of the cut client");
   if (w->removalNotices < 1) vh::viol("regress|cutafter_witness_not_told", "the witness never received a removal notice for the cut client's node");
}
// scripted isolation witnesses: each command alone must leave the victims untouched, and be refused where documented
static void RegressIsolation()
{
   IsoWorld W; W.tag = "regress|isolate"; W.Setup(1);
   Client * att = W.att, * v1 = W.v1, * v2 = W.v2;
   struct Cmd { uint32 what; const char * kind; std::string key; std::string val; };
   std::vector<Cmd> cmds;
   #define CMD(w, kind, key, val) do { Cmd c_ = {w, kind, key, val}; cmds.push_back(c_); } while (0)
   CMD(PR_COMMAND_REMOVEDATA, "keys", v1->root + "/a", ""); CMD(PR_COMMAND_REMOVEDATA, "keys", "/*/*/a", ""); CMD(PR_COMMAND_REMOVEDATA, "keys", "../" + v1->sid + "/a", ""); CMD(PR_COMMAND_REMOVEDATA, "keys", "/*/*", ""); CMD(PR_COMMAND_REMOVEDATA, "keys", "/*", "");
   CMD(PR_COMMAND_SETDATA, "msg", v1->root + "/a", ""); CMD(PR_COMMAND_SETDATA, "msg", v1->root + "/newnode", ""); CMD(PR_COMMAND_SETDATA, "msg", "../" + v1->sid + "/a", ""); CMD(PR_COMMAND_SETDATA, "msg", "/", ""); CMD(PR_COMMAND_SETDATA, "msg", "", "");
   CMD(PR_COMMAND_REORDERDATA, "str", v1->root + "/idx/" + W.ix1[2], W.ix1[0]); CMD(PR_COMMAND_REORDERDATA, "str", "/*/*/idx/" + W.ix1[2], W.ix1[0]); CMD(PR_COMMAND_REORDERDATA, "str", "/*/" + v2->sid + "/idx/*", W.ix2[0]);
   CMD(PR_COMMAND_INSERTORDEREDDATA, "keys+msg", v1->root + "/idx", W.ix1[0]); CMD(PR_COMMAND_INSERTORDEREDDATA, "keys+msg", "/*/*/idx", ""); CMD(PR_COMMAND_INSERTORDEREDDATA, "keys+msg", "/*/*", "");
   CMD(PR_COMMAND_KICK, "keys", "/*/*", ""); CMD(PR_COMMAND_KICK, "keys", v1->root, ""); CMD(PR_COMMAND_SETPARAMETERS, "priv", "", ""); CMD(PR_COMMAND_KICK, "keys", "/*/*", ""); CMD(PR_COMMAND_KICK, "keys+priv", v2->root + "/a", "");
   CMD(PR_COMMAND_ADDBANS, "keys", "*", ""); CMD(PR_COMMAND_REMOVEBANS, "keys", "*", ""); CMD(PR_COMMAND_ADDREQUIRES, "keys", "*", ""); CMD(PR_COMMAND_REMOVEREQUIRES, "keys", "*", "");
   CMD(PR_COMMAND_REMOVEPARAMETERS, "keys", "*", ""); CMD(PR_COMMAND_JETTISONRESULTS, "keys", "/*/*/*", ""); CMD(PR_COMMAND_SETDATATREES, "msg", v1->root + "/a", ""); CMD(PR_COMMAND_GETDATATREES, "keys", "/*/*", "");
   #undef CMD
   long denied = 0, unimpl = 0;
   for (size_t i = 0; i < cmds.size() && !W.bad; i++) {
      const Cmd & c = cmds[i]; MessageRef m = GetMessageFromPool(c.what); const std::string kind = c.kind;
      if (kind.find("keys") != std::string::npos) (void)m()->AddString(PR_NAME_KEYS, c.key.c_str());
      if (kind == "msg") (void)m()->AddMessage(c.key.c_str(), Payload(666, "evil", 1));
      if (kind == "keys+msg") (void)m()->AddMessage(c.val.c_str(), Payload(666, "evil", 1));
      if (kind == "str") (void)m()->AddString(c.key.c_str(), c.val.c_str());
      if (kind.find("priv") != std::string::npos) (void)m()->AddInt32(PR_NAME_PRIVILEGE_BITS, -1);
      const size_t from = att->got.size(); att->Send(m); W.log.push_back(vh::fmt("what=%u %s [%s] [%s]", c.what, c.kind, c.key.c_str(), c.val.c_str()));
      W.Check(true);
      const long d = att->CountWhat(PR_RESULT_ERRORACCESSDENIED, from), u = att->CountWhat(PR_RESULT_ERRORUNIMPLEMENTED, from); denied += d; unimpl += u;
      if (IsPriv(c.what) && d != 1) W.Fail("privileged_command_not_refused", vh::fmt("what=%u from an unprivileged session was answered by %ld PR_RESULT_ERRORACCESSDENIED", c.what, d));
      if (c.what == PR_COMMAND_SETDATATREES && u != 1) W.Fail("setdatatrees_not_bounced", "PR_COMMAND_SETDATATREES is documented as not implemented");
   }
   if (!W.bad) { std::string p = W.B.ParamSnap(att); if (att->params() == NULL || att->params()->HasName(PR_NAME_PRIVILEGE_BITS)) W.Fail("privilege_bits_settable", "the attacker's parameters carry " PR_NAME_PRIVILEGE_BITS " after it sent the field itself"); }
   vh::stat("regress_access_denied", denied); vh::stat("regress_unimplemented", unimpl);
   W.SelfTest();
}
static void RegressDeparture()
{
   // a fixed stream; cuts at: nothing sent, mid first header, first header complete, mid body, every frame boundary -1/0/+1, everything sent
   StreamSpec S; GenStream(12345, 0, S);
   std::set<size_t> cuts; cuts.insert(0); cuts.insert(3); cuts.insert(8); cuts.insert(9); cuts.insert(100); cuts.insert(S.bytes.size());
   for (size_t i = 0; i < S.starts.size(); i++) for (int d = -1; d <= 9; d += (d < 1 ? 1 : 8)) { long c = (long)S.starts[i] + d; if (c >= 0 && c <= (long)S.bytes.size()) cuts.insert((size_t)c); }
   g = vh::Rng(99);
   for (std::set<size_t>::const_iterator it = cuts.begin(); it != cuts.end(); ++it) for (int style = 0; style < 2; style++) { RunCut(S, *it, CutPlan(style), "regress|cut", false); vh::stat("regress_cuts"); }
   // fixed witnesses with content filters on the leaver's subscriptions (marks are by path; teardown must not consult the filter):
   // the witness owns mine{w=0,s=y} a{w=1,s=x} b{w=2,s=y}; the leaver subscribes with a filter that some of them fail
   { struct Step { const char * pat; int kind; int32 iv; const char * sv; };
     static const Step scripts[][3] = { { {"/*/*/*", 1, 1, ""}, {NULL, 0, 0, ""}, {NULL, 0, 0, ""} },                  // /*/*/*[w==1]: mine and b fail
                                        { {"/*/*/*", 1, 1, ""}, {"/*/*/*", 2, 0, "x"}, {NULL, 0, 0, ""} },             // filter changed before the cut
                                        { {"(a|b)", 0, 0, ""}, {"/*/*/*", 3, 2, ""}, {NULL, 0, 0, ""} },               // overlapped by an unfiltered subscription
                                        { {"b", 2, 0, "x"}, {"/*/*", 1, 7, ""}, {"b", 0, 0, ""} } };                    // b[s==x] fails on every b; session level filtered; filter dropped again
     for (size_t sc = 0; sc < NEL(scripts); sc++) {
        StreamSpec F; F.index = 1000 + (long)sc; WitnessSpec w; w.subs.push_back("/*/*/*"); w.reflect = false; w.maxItems = 0; w.nodeA = w.nodeB = true; w.nodeAX = w.idx = false; F.wit.push_back(w);
        std::vector<std::string> cur; std::map<std::string, FilterSpec> curF; F.subsAfter.push_back(cur); F.filtAfter.push_back(curF); std::string dd;
        { MessageRef sd = GetMessageFromPool(PR_COMMAND_SETDATA); (void)sd()->AddMessage("a", Payload(7, "v", 5)); F.msgs.push_back(sd); F.subsAfter.push_back(cur); F.filtAfter.push_back(curF); }
        for (int st = 0; st < 3 && scripts[sc][st].pat; st++) { const Step & x = scripts[sc][st]; FilterSpec f; f.kind = x.kind; f.iv = x.iv; f.sv = x.sv;
           MessageRef sp = GetMessageFromPool(PR_COMMAND_SETPARAMETERS); PutSub(*sp(), x.pat, f, "w"); F.msgs.push_back(sp);
           if (std::find(cur.begin(), cur.end(), std::string(x.pat)) == cur.end()) cur.push_back(x.pat); if (f.kind) curF[x.pat] = f; else curF.erase(x.pat);
           F.subsAfter.push_back(cur); F.filtAfter.push_back(curF); dd += std::string(" | SUBSCRIBE ") + x.pat + ShowFilter(f, "w"); }
        F.bytes = FrameStream(F.msgs, &F.starts); F.desc = vh::fmt("fixed filtered stream %zu:", sc) + dd;
        for (size_t fi = 2; fi < F.starts.size(); fi++) for (int style = 0; style < 2; style++) { RunCut(F, F.starts[fi], CutPlan(style), "regress|cut", false); if (fi + 1 < F.starts.size()) RunCut(F, F.starts[fi] + 11, CutPlan(style), "regress|cut", false); vh::stat("regress_filtered_cuts"); } } }
   // fixed witnesses: (1) escaped-literal clauses (direct child lookup must unescape): the node exists at subscribe time / is created afterwards by
   // a remaining session; (2) a backed-up subscriber: the witness knows node a, stops reading, a 30 KB node fills its connection, the leaver updates a
   // and departs while that update waits in the witness session's outgoing queue; the witness resumes and must be told that a vanished
   { struct Esc { const char * sub; const char * setupNode; const char * lateNode; };
     static const Esc esc[] = { {"/*/*/we\\*rd", "we*rd", ""}, {"st\\*r", "", "st*r"}, {"pa\\(ren\\),b", "", "pa(ren)"}, {"/*/*/a/we\\*rd", "a/we*rd", ""}, {"back\\\\slash", "", "back\\slash"}, {"com\\,ma", "com,ma", "b2"} };
     for (size_t e = 0; e < NEL(esc); e++) for (int style = 0; style < 2; style++) {
        StreamSpec F; F.index = 2000 + (long)e; WitnessSpec w; w.subs.push_back("/*/*/*"); w.nodeA = w.nodeB = true; if (esc[e].setupNode[0]) w.meta.push_back(esc[e].setupNode); F.wit.push_back(w);
        std::vector<std::string> cur; std::map<std::string, FilterSpec> noF; F.subsAfter.push_back(cur); F.filtAfter.push_back(noF);
        MessageRef sp = GetMessageFromPool(PR_COMMAND_SETPARAMETERS); PutSub(*sp(), esc[e].sub, FilterSpec(), "w"); F.msgs.push_back(sp); cur.push_back(esc[e].sub); F.subsAfter.push_back(cur); F.filtAfter.push_back(noF);
        MessageRef sd = GetMessageFromPool(PR_COMMAND_SETDATA); (void)sd()->AddMessage("a", Payload(7, "v", 5)); F.msgs.push_back(sd); F.subsAfter.push_back(cur); F.filtAfter.push_back(noF);
        F.bytes = FrameStream(F.msgs, &F.starts); F.desc = std::string("fixed escaped-clause stream: SUBSCRIBE ") + esc[e].sub + " | SETDATA a";
        CutPlan P(style); P.lateName = esc[e].lateNode; RunCut(F, F.bytes.size(), P, "regress|cut", false); vh::stat("regress_escaped_cuts");
        if (esc[e].lateNode[0] && std::string(esc[e].lateNode) != "b2" && g_lastLateMarked < 1) vh::viol("regress|cut|late_node_not_marked", std::string("a node created after SUBSCRIBE:") + esc[e].sub + " that the subscription names did not get the subscriber's mark");
     } }
   { for (int style = 0; style < 2; style++) for (int variant = 0; variant < 2; variant++) {
        StreamSpec F; F.index = 3000; WitnessSpec w; w.subs.push_back("/*/*/*"); w.nodeA = true; w.slow = true; F.wit.push_back(w);
        std::vector<std::string> cur; std::map<std::string, FilterSpec> noF; F.subsAfter.push_back(cur); F.filtAfter.push_back(noF);
        MessageRef s1 = GetMessageFromPool(PR_COMMAND_SETDATA); (void)s1()->AddMessage("a", Payload(7, "v", 1)); (void)s1()->AddMessage("b", Payload(7, "v", 1)); F.msgs.push_back(s1); F.subsAfter.push_back(cur); F.filtAfter.push_back(noF);
        MessageRef s2 = GetMessageFromPool(PR_COMMAND_SETDATA); (void)s2()->AddMessage("a", Payload(7, "v", 2)); F.msgs.push_back(s2); F.subsAfter.push_back(cur); F.filtAfter.push_back(noF);
        if (variant == 1) { MessageRef rd = GetMessageFromPool(PR_COMMAND_REMOVEDATA); (void)rd()->AddString(PR_NAME_KEYS, "a"); F.msgs.push_back(rd); F.subsAfter.push_back(cur); F.filtAfter.push_back(noF); }   // removed by command, then departure
        F.bytes = FrameStream(F.msgs, &F.starts); F.desc = std::string("fixed backlog stream: SETDATA a b | UPDATE a") + (variant ? " | REMOVEDATA a" : "");
        CutPlan P(style); P.pause = true; P.pauseAt = F.starts[1]; P.bigBytes = 30000; RunCut(F, variant ? F.starts[2] : F.bytes.size(), P, "regress|cut", false);
        if (g_lastQueuedKnown < 1) Abort("backlog witness: no update of a known node was waiting in the paused witness's session queue at the cut");
        if (variant == 1) RunCut(F, F.bytes.size(), P, "regress|cut", false);
        vh::stat("regress_backlog_cuts");
     } }
   // the departure oracle must fire when the session has NOT departed: run the post-cut checks' core on a connected leaver
   { Bench B; Client * w = B.AddClient(); MessageRef sp = GetMessageFromPool(PR_COMMAND_SETPARAMETERS); (void)sp()->AddBool("SUBSCRIBE:/*/*/*", true); w->Send(sp); MessageRef sd0 = GetMessageFromPool(PR_COMMAND_SETDATA); (void)sd0()->AddMessage("b", Payload(1, "v", 1)); w->Send(sd0); B.Settle();
     RawPeer * L = B.AddRaw(); B.Settle(); size_t off = 0; while (off < S.bytes.size()) { off += L->Write(S.bytes.data() + off, S.bytes.size() - off); B.Settle(2); } B.Settle();
     TreeSnap s; B.insp->Snapshot(s); long shown = 0; for (std::map<std::string, std::string>::const_iterator i2 = w->mirror.begin(); i2 != w->mirror.end(); ++i2) if (Under(i2->first, L->root)) shown++;
     if (CountUnder(s, L->root, true) < 5 || shown < 3) Abort("departure oracle self-test: a connected leaver's nodes are not seen by the trace functions");
     if (!S.subsAfter.back().empty() && MarksOf(s, L->id) == 0 && B.insp->CachedTablesWithKey(L->id) == 0) Abort("departure oracle self-test: a connected, subscribed leaver shows no subscriber mark anywhere");
     vh::stat("regress_departure_selftest"); }
}

// fixed witness of the finding "a recycled DataNode keeps its _orderedCounter": sessions join, give 1-9 fresh nodes 1-3 ordered
// children each, and leave; every fresh node must number its children from I0
static void RegressRecycledCounter()
{
   Bench B;
   for (int round = 0; round < 12; round++) {
      Client * b = B.AddClient(); const int nn = 1 + (round * 7) % 9;
      MessageRef sd = GetMessageFromPool(PR_COMMAND_SETDATA); for (int i = 0; i < nn; i++) (void)sd()->AddMessage(vh::fmt("n%d", i).c_str(), Payload(1, "v", i)); b->Send(sd);
      MessageRef io = GetMessageFromPool(PR_COMMAND_INSERTORDEREDDATA); (void)io()->AddString(PR_NAME_KEYS, "*"); for (int j = 0; j <= round % 3; j++) (void)io()->AddMessage("", Payload(2, "i", j)); b->Send(io); B.Settle();
      TreeSnap s; B.insp->Snapshot(s); for (int i = 0; i < nn; i++) CheckFreshIndexNames(s, b->root + vh::fmt("/n%d", i), vh::fmt("regress round %d", round));
      b->Cut(); B.Settle();
   }
}

int main(int argc, char ** argv)
{
   CompleteSetupSystem css;
   SetConsoleLogLevel(MUSCLE_LOG_NONE);
   vh::init(argc, argv);
   vh::Ctx & c = vh::ctx(); const std::string mode = vh::opt("mode", "isolate");
   if (mode == "regress") {
      vh::begin_case(0); RegressMatcher();
      vh::begin_case(1); RegressSlowClient();
      vh::begin_case(2); RegressCutAfter();
      vh::begin_case(3); RegressIsolation();
      vh::begin_case(4); RegressDeparture();
      vh::begin_case(5); RegressRecycledCounter();
      vh::distinct(1, true);
   } else if (mode == "isolate") {
      for (long k = c.from; k < c.from + c.cases; k++) { vh::begin_case(k); RunIsolateCase(k, vh::case_seed(c.seed, STREAM_ISOLATE, (uint64_t)k)); }
   } else if (mode == "cut") {
      for (long k = c.from; k < c.from + c.cases; k++) { vh::begin_case(k); RunCutCase(k, c.seed); }
      g_stream = StreamSpec();   // its MessageRefs must be gone before the Message pool is destroyed
   } else { fprintf(stderr, "h_isolate: unknown mode %s\n", mode.c_str()); return 3; }
   return vh::finish();
}
