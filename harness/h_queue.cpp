// h_queue -- C16: muscle::Queue against std::deque, every public operation, three item types.
// One case = one history on a fresh Queue (50..600 operations), audited after every operation.
// modes (--opt mode=): model (default) | regress (fixed witnesses F19 F20 F21 + documentation examples)
#include "util/Queue.h"
#include "util/String.h"
#include "system/SetupSystem.h"
#include <deque>
#include <string>
#include <algorithm>
#include "vh.h"
using namespace muscle;

static vh::Rng g(1);
static uint32_t R(uint32_t n) { return g.R(n); }

// owning instrumented item: a heap payload per non-default value; live payload count is audited
struct Own {
   int * p;
   static long live;
   Own() : p(NULL) {}
   explicit Own(int v) : p(new int(v)) { live++; }
   Own(const Own & o) : p(o.p ? new int(*o.p) : NULL) { if (p) live++; }
   Own(Own && o) : p(o.p) { o.p = NULL; }
   Own & operator=(Own && o) { if (this != &o) { if (p) { live--; delete p; } p = o.p; o.p = NULL; } return *this; }
   Own & operator=(const Own & o) { if (this != &o) { int * np = o.p ? new int(*o.p) : NULL; if (np) live++; if (p) { live--; delete p; } p = np; } return *this; }
   ~Own() { if (p) { live--; delete p; p = NULL; } }
   int val() const { return p ? *p : -1; }
   bool operator==(const Own & o) const { return val() == o.val(); }
   bool operator!=(const Own & o) const { return val() != o.val(); }
   bool operator<(const Own & o) const { return val() < o.val(); }
   bool operator>(const Own & o) const { return val() > o.val(); }
};
long Own::live = 0;

template<class T> struct SmallArr { T a[8]; uint32 n; SmallArr() : n(0) {} void push_back(const T & x) { a[n++] = x; } bool empty() const { return n == 0; } T & operator[](uint32 i) { return a[i]; } T * begin() { return a; } T * end() { return a + n; } };
template<class T> struct Conv;
template<> struct Conv<int32> { static int32 Make(uint32 range) { return (int32)R(range) + 1; } static int32 Def() { return 0; } static std::string Show(const int32 & v) { return vh::fmt("%d", v); } static const char * Name() { return "int32"; } static long Key(const int32 & v) { return v / 4; } };
template<> struct Conv<bool> { static bool Make(uint32) { return R(2) != 0; } static bool Def() { return false; } static std::string Show(const bool & v) { return v ? "true" : "false"; } static const char * Name() { return "bool"; } static long Key(const bool &) { return 0; } };   // trivial type whose invalid (never-written) values UBSan can see: F55
template<> struct Conv<String> { static String Make(uint32 range) { char b[64]; snprintf(b, sizeof(b), "s%02u%s", R(range), R(3) == 0 ? "_a_long_string_beyond_sso" : ""); return String(b); } static String Def() { return String(); } static std::string Show(const String & v) { return std::string("'") + v() + "'"; } static const char * Name() { return "String"; } static long Key(const String & v) { return v.Length() > 2 ? (long)(unsigned char)v()[2] : -1; } };
template<> struct Conv<Own> { static Own Make(uint32 range) { return Own((int)R(range)); } static Own Def() { return Own(); } static std::string Show(const Own & v) { return vh::fmt("o%d", v.val()); } static const char * Name() { return "Own"; } static long Key(const Own & v) { return v.val() / 4; } };

static std::vector<std::string> trace;
static bool caseBad;
static std::string opname;
static const char * typeName = "?";

static void Fail(const std::string & what)
{
   if (caseBad) return;   // one violation per case: everything after the first divergence is noise
   caseBad = true;
   std::string d = what + " | type=" + typeName + " | last ops: ";
   size_t from = trace.size() > 40 ? trace.size() - 40 : 0;
   for (size_t i = from; i < trace.size(); i++) { d += trace[i]; d += "; "; }
   std::string key = opname; for (size_t i = 0; i < key.size(); i++) if (isdigit((unsigned char)key[i]) || key[i] == ' ') { key.resize(i); break; }
   vh::viol("model|" + key, d);
}
#define OP(...) do { opname = vh::fmt(__VA_ARGS__); trace.push_back(opname); vh::stat(std::string("op_") + std::string(opname, 0, opname.find(' '))); } while (0)

template<class T> static long NonDefault(const std::deque<T> &) { return 0; }
template<> long NonDefault<Own>(const std::deque<Own> & m) { long n = 0; for (size_t i = 0; i < m.size(); i++) if (m[i].p) n++; return n; }

template<class T> static void Audit(const Queue<T> & q, const std::deque<T> & m)
{
   vh::stat("audits");
   if (q.GetNumItems() != m.size()) { Fail(vh::fmt("size %u, model %zu", q.GetNumItems(), m.size())); return; }
   if (q.IsEmpty() != m.empty() || q.HasItems() == m.empty()) { Fail("IsEmpty/HasItems"); return; }
   for (uint32 i = 0; i < q.GetNumItems(); i++) if (!(q[i] == m[i])) { Fail(vh::fmt("item %u is %s, model has %s", i, Conv<T>::Show(q[i]).c_str(), Conv<T>::Show(m[i]).c_str())); return; }
   if (m.size()) { if (!(q.Head() == m.front()) || !(q.Tail() == m.back())) { Fail("Head()/Tail()"); return; } }
   if (q.GetNumAllocatedItemSlots() < q.GetNumItems()) { Fail("allocated slots < items"); return; }
}
// live payloads must be exactly those of the model and of the queue's items: a stale copy kept in a
// spare slot (not reset to the default item) shows as an extra payload.
template<class T> static void AuditLive(const Queue<T> &, const std::deque<T> &, long) {}
template<> void AuditLive<Own>(const Queue<Own> & q, const std::deque<Own> & m, long extra)
{
   long want = 2 * NonDefault(m) + extra;
   // A copy kept in a *hidden* spare slot is not an exposure (the property speaks of what the Queue shows), so it is
   // only counted; it becomes a violation when Audit() sees it as an item, or when it outlives the Queue (end of case).
   if (Own::live != want) vh::stat("observations_of_nondefault_hidden_spare_slots");
   (void)q;
}

template<class T> static void MakeOther(Queue<T> & o2, std::deque<T> & m2, uint32 maxN, uint32 range, bool head)
{
   int c = R(maxN + 1);
   for (int i = 0; i < c; i++) { T x = Conv<T>::Make(range); if (head) { (void)o2.AddHead(x); m2.push_front(x); } else { (void)o2.AddTail(x); m2.push_back(x); } }
}

// a comparison functor that treats distinguishable items as equal (coarse key): with it, Sort()'s documented stability is observable
static long gCoarseCalls = 0;
template<class T> struct CoarseCmp { int Compare(const T & a, const T & b, void * cookie) const { if (cookie == (void *)&gCoarseCalls) gCoarseCalls++; const long ka = Conv<T>::Key(a), kb = Conv<T>::Key(b); return (ka < kb) ? -1 : ((ka > kb) ? 1 : 0); } };
template<class T> struct CoarseLess { bool operator()(const T & a, const T & b) const { return Conv<T>::Key(a) < Conv<T>::Key(b); } };
// walks an iterator (by value) and compares the visited indices and values with the expected index list; the iterator must end exactly there
template<class It, class T> static bool WalkOK(It it, const std::vector<uint32> & want, const std::deque<T> & m, int32 stride)
{
   if (it.GetStride() != stride) return false;
   for (size_t i = 0; i < want.size(); i++) { if (!it.HasData() || it.GetIndex() != want[i] || !(*it == m[want[i]])) return false; it++; }
   return !it.HasData();
}
template<class T> static void RunCase(long k, uint64_t cs)
{
   g = vh::Rng(cs); trace.clear(); caseBad = false; typeName = Conv<T>::Name(); vh::stat(std::string("type_") + typeName);
   const long live0 = Own::live;
   {
   Queue<T> * q = new Queue<T>; std::deque<T> m;
   const uint32 range = (R(3) == 0) ? 6 : 50;                 // small range: many duplicates
   const bool big = (R(20) == 0);                              // excursion to thousands of items
   const uint32 nops = big ? 300 + R(300) : 50 + R(350);
   uint32 maxSize = 0; bool wrapped = false, heap = false, shrunk = false;
   for (uint32 it = 0; it < nops && !caseBad; it++) {
      if (big && m.size() < 3000 && R(3) == 0) { uint32 n = 200 + R(900); OP("bulkAddTail %u", n); for (uint32 i = 0; i < n; i++) { T x = Conv<T>::Make(range); (void)q->AddTail(x); m.push_back(x); } }
      int o = R(71); T v = Conv<T>::Make(range); uint32 sz = (uint32)m.size(); uint32 k1 = sz ? R(sz + 1) : 0, k2 = sz ? R(sz + 1) : 0; status_t r;
      switch (o) {
      case 0: case 1: case 2: OP("AddTail"); r = q->AddTail(v); m.push_back(v); if (r.IsError()) Fail("AddTail failed"); break;
      case 3: case 4: case 5: OP("AddHead"); r = q->AddHead(v); m.push_front(v); if (r.IsError()) Fail("AddHead failed"); break;
      case 6: OP("RemoveHead"); r = q->RemoveHead(); if (r.IsOK() != (sz > 0)) Fail("RemoveHead status"); if (sz) m.pop_front(); break;
      case 7: OP("RemoveTail"); r = q->RemoveTail(); if (r.IsOK() != (sz > 0)) Fail("RemoveTail status"); if (sz) m.pop_back(); break;
      case 8: { OP("RemoveHead(out)"); T out = Conv<T>::Make(range); T keep = out; r = q->RemoveHead(out); if (r.IsOK() != (sz > 0)) Fail("status"); if (sz) { if (!(out == m.front())) Fail("returned value"); m.pop_front(); } else if (!(out == keep)) Fail("out argument changed on failure"); } break;
      case 9: { OP("RemoveTail(out)"); T out = Conv<T>::Make(range); T keep = out; r = q->RemoveTail(out); if (r.IsOK() != (sz > 0)) Fail("status"); if (sz) { if (!(out == m.back())) Fail("returned value"); m.pop_back(); } else if (!(out == keep)) Fail("out argument changed on failure"); } break;
      case 10: OP("InsertItemAt %u/%u", k1, sz); r = q->InsertItemAt(k1, v); if (r.IsOK()) m.insert(m.begin() + k1, v); else Fail("InsertItemAt failed"); break;
      case 11: OP("InsertItemAtBeyondEnd"); r = q->InsertItemAt(sz + 1 + R(3), v); if (r.IsOK()) m.push_back(v); else Fail("documented to behave as AddTail"); break;
      case 12: OP("RemoveItemAt %u/%u", k1, sz); r = q->RemoveItemAt(k1); if (r.IsOK() != (k1 < sz)) Fail("status"); if (k1 < sz) m.erase(m.begin() + k1); break;
      case 13: { OP("RemoveItemAt(out) %u/%u", k1, sz); T out = Conv<T>::Make(range); r = q->RemoveItemAt(k1, out); if (r.IsOK() != (k1 < sz)) Fail("status"); if (k1 < sz) { if (!(out == m[k1])) Fail("returned value"); m.erase(m.begin() + k1); } } break;
      case 14: OP("ReplaceItemAt %u/%u", k1, sz); r = q->ReplaceItemAt(k1, v); if (r.IsOK() != (k1 < sz)) Fail("status"); if (k1 < sz) m[k1] = v; break;
      case 15: if (sz) { uint32 idx = k1 % sz; OP("AddTailOwnItem %u", idx); T copy = m[idx]; r = q->AddTail((*q)[idx]); m.push_back(copy); } break;
      case 16: if (sz) { uint32 idx = k1 % sz; OP("AddHeadOwnItem %u", idx); T copy = m[idx]; r = q->AddHead((*q)[idx]); m.push_front(copy); } break;
      case 17: if (sz) { uint32 idx = k1 % sz; OP("InsertItemAtOwnItem %u<-%u", k2, idx); T copy = m[idx]; r = q->InsertItemAt(k2, (*q)[idx]); if (r.IsOK()) m.insert(m.begin() + k2, copy); else Fail("failed"); } break;
      case 18: if (sz) { uint32 idx = k1 % sz, at = k2 % sz; OP("ReplaceItemAtOwnItem %u<-%u", at, idx); T copy = m[idx]; r = q->ReplaceItemAt(at, (*q)[idx]); m[at] = copy; } break;
      case 19: { Queue<T> o2; std::deque<T> m2; MakeOther(o2, m2, 6, range, false); OP("AddTailMulti %zu", m2.size()); r = q->AddTailMulti(o2); m.insert(m.end(), m2.begin(), m2.end()); } break;
      case 20: { Queue<T> o2; std::deque<T> m2; MakeOther(o2, m2, 6, range, true); OP("AddHeadMulti %zu", m2.size()); r = q->AddHeadMulti(o2); m.insert(m.begin(), m2.begin(), m2.end()); } break;
      case 21: { Queue<T> o2; std::deque<T> m2; MakeOther(o2, m2, 8, range, false); uint32 st = R((uint32)m2.size() + 2), n = R(2) ? MUSCLE_NO_LIMIT : R(6); OP("AddTailMultiRange %u %u of %zu", st, n, m2.size()); r = q->AddTailMulti(o2, st, n); for (uint32 i = st; i < m2.size() && (i - st) < n; i++) m.push_back(m2[i]); } break;
      case 22: { Queue<T> o2; std::deque<T> m2; MakeOther(o2, m2, 8, range, false); uint32 st = R((uint32)m2.size() + 2), n = R(2) ? MUSCLE_NO_LIMIT : R(6); OP("AddHeadMultiRange %u %u of %zu", st, n, m2.size()); r = q->AddHeadMulti(o2, st, n); std::deque<T> part; for (uint32 i = st; i < m2.size() && (i - st) < n; i++) part.push_back(m2[i]); m.insert(m.begin(), part.begin(), part.end()); } break;
      case 23: if (sz < 300) { OP("AddTailMultiSelf"); std::deque<T> c = m; r = q->AddTailMulti(*q); m.insert(m.end(), c.begin(), c.end()); if (r.IsError()) Fail("failed"); } break;
      case 24: if (sz < 300) { OP("AddHeadMultiSelf"); std::deque<T> c = m; r = q->AddHeadMulti(*q); m.insert(m.begin(), c.begin(), c.end()); if (r.IsError()) Fail("failed"); } break;
      case 25: if (sz < 300) { uint32 st = R(sz + 1), n = R(5); OP("AddHeadMultiSelfRange %u %u", st, n); std::deque<T> part; for (uint32 i = st; i < sz && (i - st) < n; i++) part.push_back(m[i]); r = q->AddHeadMulti(*q, st, n); m.insert(m.begin(), part.begin(), part.end()); } break;
      case 26: if (sz < 300) { uint32 st = R(sz + 1), n = R(5); OP("AddTailMultiSelfRange %u %u", st, n); std::deque<T> part; for (uint32 i = st; i < sz && (i - st) < n; i++) part.push_back(m[i]); r = q->AddTailMulti(*q, st, n); m.insert(m.end(), part.begin(), part.end()); } break;
      case 27: { Queue<T> o2; std::deque<T> m2; MakeOther(o2, m2, 6, range, false); OP("InsertItemsAt %u/%u n=%zu", k1, sz, m2.size()); r = q->InsertItemsAt(k1, o2); if (r.IsOK()) m.insert(m.begin() + k1, m2.begin(), m2.end()); else Fail("failed"); } break;
      case 28: if (sz < 300) { OP("InsertItemsAtSelf %u/%u", k1, sz); std::deque<T> c = m; r = q->InsertItemsAt(k1, *q); if (r.IsOK()) m.insert(m.begin() + k1, c.begin(), c.end()); else Fail("failed"); } break;
      case 29: if (sz < 300) { uint32 st = R(sz + 1), n = R(5); OP("InsertItemsAtSelfRange %u/%u from %u n=%u", k1, sz, st, n); std::deque<T> part; for (uint32 i = st; i < sz && (i - st) < n; i++) part.push_back(m[i]); r = q->InsertItemsAt(k1, *q, st, n); if (r.IsOK()) m.insert(m.begin() + k1, part.begin(), part.end()); else Fail("failed"); } break;
      case 30: { uint32 n = R(5); SmallArr<T> arr; for (uint32 i = 0; i < n; i++) arr.push_back(Conv<T>::Make(range)); OP("InsertItemsAtArray %u/%u n=%u", k1, sz, n); r = q->InsertItemsAt(k1, arr.empty() ? NULL : &arr[0], n); if (r.IsOK()) m.insert(m.begin() + k1, arr.begin(), arr.end()); else Fail("failed"); } break;
      case 31: { uint32 n = R(5); SmallArr<T> arr; for (uint32 i = 0; i < n; i++) arr.push_back(Conv<T>::Make(range)); bool head = R(2); OP(head ? "AddHeadMultiArray %u" : "AddTailMultiArray %u", n); if (n) { r = head ? q->AddHeadMulti(&arr[0], n) : q->AddTailMulti(&arr[0], n); if (head) m.insert(m.begin(), arr.begin(), arr.end()); else m.insert(m.end(), arr.begin(), arr.end()); } } break;
      case 32: if (sz >= 2 && sz < 300) { uint32 a = R(sz - 1), n = 1 + R(muscleMin(sz - a, (uint32)4)); bool head = R(2); q->Normalize(); OP(head ? "AddHeadMultiOwnArray %u %u" : "AddTailMultiOwnArray %u %u", a, n); std::deque<T> part(m.begin() + a, m.begin() + a + n); r = head ? q->AddHeadMulti(&(*q)[a], n) : q->AddTailMulti(&(*q)[a], n); if (head) m.insert(m.begin(), part.begin(), part.end()); else m.insert(m.end(), part.begin(), part.end()); } break;
      case 33: { uint32 c = R(5); OP("RemoveHeadMulti %u", c); uint32 got = q->RemoveHeadMulti(c); uint32 e = std::min(c, sz); if (got != e) Fail("returned count"); m.erase(m.begin(), m.begin() + e); } break;
      case 34: { uint32 c = R(5); OP("RemoveTailMulti %u", c); uint32 got = q->RemoveTailMulti(c); uint32 e = std::min(c, sz); if (got != e) Fail("returned count"); m.erase(m.end() - e, m.end()); } break;
      case 35: if (sz) { OP("Swap %u %u", k1 % sz, k2 % sz); q->Swap(k1 % sz, k2 % sz); std::swap(m[k1 % sz], m[k2 % sz]); } break;
      case 36: { uint32 a = std::min(k1, k2), b = std::max(k1, k2) + R(2) * R(3); OP("ReverseItemOrdering %u %u", a, b); q->ReverseItemOrdering(a, b); if (b > sz) b = sz; if (b > a) std::reverse(m.begin() + a, m.begin() + b); } break;
      case 37: { uint32 a = std::min(k1, k2), b = std::max(k1, k2) + R(2) * R(3);
                 if (R(2)) { OP("Sort %u %u", a, b); q->Sort(a, b); if (b > sz) b = sz; if (b > a) std::stable_sort(m.begin() + a, m.begin() + b); }
                 else { // documented as a STABLE sort: items the functor calls equal keep their relative order
                    if (R(3) == 0) { a = 0; b = MUSCLE_NO_LIMIT; } OP("SortCoarse %u %u", a, b); const long c0 = gCoarseCalls; q->Sort(CoarseCmp<T>(), a, b, (void *)&gCoarseCalls); if (b > sz) b = sz;
                    if (b > a) { std::stable_sort(m.begin() + a, m.begin() + b, CoarseLess<T>()); if (b - a >= 12) vh::stat("coarse_sorts_of_12_or_more_items"); if (b - a >= 2 && gCoarseCalls == c0) Fail("the cookie was not passed to the comparison functor"); } } } break;
      case 38: { uint32 want = R(40); OP("EnsureSizeSet %u (from %u)", want, sz); r = q->EnsureSize(want, true); if (r.IsOK()) { while (m.size() < want) m.push_back(Conv<T>::Def()); while (m.size() > want) m.pop_back(); } else Fail("failed"); } break;
      case 39: { uint32 want = R(100), ex = R(10); bool sh = R(2); OP("EnsureSize %u extra %u shrink %d (items %u)", want, ex, (int)sh, sz); if (q->EnsureSize(want, false, ex, sh).IsError()) Fail("failed"); if (q->GetNumAllocatedItemSlots() < want) Fail("fewer slots than requested"); if (sh) shrunk = true; } break;
      case 40: { uint32 want = R(60), ex = R(6); OP("EnsureSizeSetShrink %u extra %u (from %u)", want, ex, sz); r = q->EnsureSize(want, true, ex, true); if (r.IsOK()) { while (m.size() < want) m.push_back(Conv<T>::Def()); while (m.size() > want) m.pop_back(); shrunk = true; } else Fail("failed"); } break;
      case 41: { uint32 n = R(20); OP("EnsureCanAdd %u", n); if (q->EnsureCanAdd(n).IsError()) Fail("failed"); if (q->GetNumUnusedItemSlots() < n) Fail("unused slots < n"); } break;
      case 42: OP("ShrinkToFit"); if (q->ShrinkToFit().IsError()) Fail("failed"); shrunk = true; break;
      case 43: OP("Normalize"); q->Normalize(); if (!q->IsNormalized()) Fail("not normalized afterwards"); break;
      case 44: { bool rel = R(2); OP(rel ? "ClearRelease" : "Clear"); q->Clear(rel); m.clear(); } break;
      case 45: { OP("copy"); Queue<T> c(*q); if (!(c == *q) || (c != *q)) Fail("copy != original"); Queue<T> d; { std::deque<T> dm; MakeOther(d, dm, 4, range, false); } d = *q; if (d != *q) Fail("assigned != original"); Audit(c, m); Audit(d, m); } break;
      case 46: { Queue<T> o2; std::deque<T> m2; MakeOther(o2, m2, 8, range, true); OP("SwapContents %zu", m2.size()); q->SwapContents(o2); m.swap(m2); Audit(o2, m2); } break;
      case 47: { OP("IndexOf"); int32 r1 = q->IndexOf(v); typename std::deque<T>::iterator f = std::find(m.begin(), m.end(), v); int32 r2 = f == m.end() ? -1 : (int32)(f - m.begin()); if (r1 != r2) Fail(vh::fmt("got %d want %d", r1, r2)); if (q->Contains(v) != (r2 >= 0)) Fail("Contains"); } break;
      case 48: { OP("LastIndexOf"); int32 r1 = q->LastIndexOf(v); int32 r2 = -1; for (int32 i = (int32)sz - 1; i >= 0; i--) if (m[i] == v) { r2 = i; break; } if (r1 != r2) Fail(vh::fmt("got %d want %d", r1, r2)); } break;
      case 49: { uint32 a = R(sz + 2), b2 = R(sz + 2); if (a > b2) std::swap(a, b2); OP("IndexOfRange %u %u", a, b2); int32 i1 = q->IndexOf(v, a, b2); long w1 = -1; for (uint32 i = a; i < b2 && i < sz; i++) if (m[i] == v) { w1 = i; break; } if (i1 != w1) Fail(vh::fmt("got %d want %ld", i1, w1)); } break;
      case 50: { OP("RemoveAllInstancesOf"); uint32 c = q->RemoveAllInstancesOf(v); uint32 e = (uint32)std::count(m.begin(), m.end(), v); m.erase(std::remove(m.begin(), m.end(), v), m.end()); if (c != e) Fail("returned count"); } break;
      case 51: if (sz) { uint32 idx = k1 % sz; OP("RemoveAllInstancesOfOwnItem %u", idx); T val = m[idx]; uint32 c = q->RemoveAllInstancesOf((*q)[idx]); uint32 e = (uint32)std::count(m.begin(), m.end(), val); m.erase(std::remove(m.begin(), m.end(), val), m.end()); if (c != e) Fail(vh::fmt("returned count %u want %u", c, e)); } break;
      case 52: { OP("RemoveFirstInstanceOf"); r = q->RemoveFirstInstanceOf(v); typename std::deque<T>::iterator f = std::find(m.begin(), m.end(), v); if (r.IsOK() != (f != m.end())) Fail("status"); if (f != m.end()) m.erase(f); } break;
      case 53: { OP("RemoveLastInstanceOf"); typename std::deque<T>::reverse_iterator rr = std::find(m.rbegin(), m.rend(), v); r = q->RemoveLastInstanceOf(v); if (r.IsOK() != (rr != m.rend())) Fail("status"); if (rr != m.rend()) m.erase(std::next(rr).base()); } break;
      case 54: { OP("rebuild"); delete q; q = new Queue<T>; for (size_t i = 0; i < m.size(); i++) (void)q->AddTail(m[i]); } break;
      case 55: { OP("moveRoundTrip"); Queue<T> moved(std::move(*q)); Audit(moved, m); *q = std::move(moved); } break;
      case 56: { OP("RemoveDuplicateItems"); uint32 c = q->RemoveDuplicateItems(); std::deque<T> u(m); std::sort(u.begin(), u.end()); u.erase(std::unique(u.begin(), u.end()), u.end()); if (c != m.size() - u.size()) Fail("returned count"); m = u; } break;
      case 57: { uint32 at = k1 + R(3); OP("GetWithDefault %u/%u", at, sz); const T & d = q->GetWithDefault(at); if (!(d == (at < sz ? m[at] : Conv<T>::Def()))) Fail("value"); T alt = Conv<T>::Make(range); const T & d2 = q->GetWithDefault(at, alt); if (!(d2 == (at < sz ? m[at] : alt))) Fail("value (explicit default)"); } break;
      case 58: { OP("SortedInsert"); q->Sort(); std::stable_sort(m.begin(), m.end()); int32 idx = q->InsertItemAtSortedPosition(v); typename std::deque<T>::iterator hi = std::upper_bound(m.begin(), m.end(), v), lo = std::lower_bound(m.begin(), m.end(), v); long loI = lo - m.begin(), hiI = hi - m.begin(); m.insert(hi, v); if (idx < loI || idx > hiI) Fail(vh::fmt("returned index %d outside [%ld,%ld]", idx, loI, hiI)); } break;
      case 59: { uint32 kk = R(4); bool real = R(2); Queue<T> p; std::deque<T> pm; for (uint32 i = 0; i < kk; i++) { T x = (real && i < sz) ? m[i] : Conv<T>::Make(range); (void)p.AddTail(x); pm.push_back(x); } OP("StartsEndsWith %u", kk); bool want = pm.size() <= m.size() && std::equal(pm.begin(), pm.end(), m.begin()); if (q->StartsWith(p) != want) Fail("StartsWith(queue)");
                 Queue<T> e; std::deque<T> em; for (uint32 i = 0; i < kk; i++) { T x = (real && kk <= sz) ? m[sz - kk + i] : Conv<T>::Make(range); (void)e.AddTail(x); em.push_back(x); } want = em.size() <= m.size() && std::equal(em.begin(), em.end(), m.end() - em.size()); if (q->EndsWith(e) != want) Fail("EndsWith(queue)");
                 if (q->StartsWith(v) != (sz && m.front() == v)) Fail("StartsWith(item)"); if (q->EndsWith(v) != (sz && m.back() == v)) Fail("EndsWith(item)"); } break;
      case 60: { OP("GetArrayPointer"); std::deque<T> cat; for (uint32 w = 0; w < 3; w++) { uint32 len = 12345; const T * p = const_cast<const Queue<T> &>(*q).GetArrayPointer(w, len); if (p) { for (uint32 i = 0; i < len; i++) cat.push_back(p[i]); if (w == 1) wrapped = true; } else if (w == 0 && sz) Fail("GetArrayPointer(0) NULL on a non-empty queue"); } if (!(cat == m)) Fail(vh::fmt("concatenated sub-arrays hold %zu items", cat.size())); } break;
      case 61: { OP("iterators"); std::deque<T> f; for (QueueIterator<T> i = q->GetIterator(); i.HasData(); i++) { if (i.GetIndex() != f.size()) Fail("iterator index"); f.push_back(i.GetValue()); } if (!(f == m)) Fail("forward iterator");
                 std::deque<T> b; for (QueueIterator<T> i = q->GetBackwardIterator(); i.HasData(); i++) b.push_front(*i); if (!(b == m)) Fail("backward iterator");
                 uint32 at = R(sz + 2); std::deque<T> fa; for (QueueIterator<T> i = q->GetIteratorAt(at); i.HasData(); i++) fa.push_back(*i); std::deque<T> wa; if (at < sz) wa.assign(m.begin() + at, m.end()); if (!(fa == wa)) Fail("GetIteratorAt");
                 std::deque<T> ba; for (QueueIterator<T> i = q->GetBackwardIteratorAt(at); i.HasData(); i++) ba.push_front(*i); std::deque<T> wb; if (at < sz) wb.assign(m.begin(), m.begin() + at + 1); if (!(ba == wb)) Fail("GetBackwardIteratorAt");
                 const Queue<T> & cq = *q; std::deque<T> cf; for (ConstQueueIterator<T> i = cq.GetIterator(); i.HasData(); i++) cf.push_back(*i); if (!(cf == m)) Fail("const iterator"); } break;
      case 62: { OP("AddIfNotAlreadyPresent"); bool had = std::find(m.begin(), m.end(), v) != m.end(); if (q->AddTailIfNotAlreadyPresent(v).IsError()) Fail("failed"); if (!had) m.push_back(v); T w = Conv<T>::Make(range); had = std::find(m.begin(), m.end(), w) != m.end(); (void)q->AddHeadIfNotAlreadyPresent(w); if (!had) m.push_front(w); } break;
      case 63: if (R(6) == 0) { OP("ReplaceAllItems"); q->ReplaceAllItems(v); for (size_t i = 0; i < m.size(); i++) m[i] = v; } break;
      case 64: { OP("CopyFrom"); Queue<T> c; for (uint32 i = 0; i < R(6); i++) (void)c.AddHead(Conv<T>::Make(range)); if (c.CopyFrom(*q).IsError()) Fail("failed"); Audit(c, m); if (sz) { (void)c.RemoveTail(); if (c == *q) Fail("shorter copy compares equal"); if (!(c != *q)) Fail("!= on shorter copy"); } } break;
      case 65: { OP("RemoveWithDefault"); T got = q->RemoveHeadWithDefault(); T want = sz ? m.front() : Conv<T>::Def(); if (sz) m.pop_front(); if (!(got == want)) Fail("RemoveHeadWithDefault"); got = q->RemoveTailWithDefault(); want = m.size() ? m.back() : Conv<T>::Def(); if (m.size()) m.pop_back(); if (!(got == want)) Fail("RemoveTailWithDefault"); uint32 at = R((uint32)m.size() + 2); got = q->RemoveItemAtWithDefault(at); want = at < m.size() ? m[at] : Conv<T>::Def(); if (at < m.size()) m.erase(m.begin() + at); if (!(got == want)) Fail("RemoveItemAtWithDefault"); } break;
      case 66: { OP("HeadTailAccess"); if (!(q->HeadWithDefault() == (sz ? m.front() : Conv<T>::Def())) || !(q->TailWithDefault() == (sz ? m.back() : Conv<T>::Def()))) Fail("Head/TailWithDefault"); if ((q->HeadPointer() != NULL) != (sz > 0) || (q->TailPointer() != NULL) != (sz > 0)) Fail("Head/TailPointer nullness"); if (sz && (!(*q->HeadPointer() == m.front()) || !(*q->TailPointer() == m.back()))) Fail("Head/TailPointer value"); if (sz && q->GetLastValidIndex() != sz - 1) Fail("GetLastValidIndex"); if (q->IsIndexValid(sz) || (sz && !q->IsIndexValid(sz - 1))) Fail("IsIndexValid"); } break;
      case 67: { OP("AddAndGet"); T * p = q->AddTailAndGet(v); if (!p || !(*p == v)) Fail("AddTailAndGet"); m.push_back(v); T w = Conv<T>::Make(range); p = q->AddHeadAndGet(w); if (!p || !(*p == w)) Fail("AddHeadAndGet"); m.push_front(w); // the no-argument forms: default item for class types; documented as uninitialised for POD types, so the caller (we) assigns it
                 const bool pod = std::is_trivial<T>::value; T x1 = Conv<T>::Make(range), x2 = Conv<T>::Make(range);
                 p = q->AddTailAndGet(); if (!p || (!pod && !(*p == Conv<T>::Def()))) Fail("AddTailAndGet() must expose a default item"); if (p) *p = x1; m.push_back(x1);
                 p = q->AddHeadAndGet(); if (!p || (!pod && !(*p == Conv<T>::Def()))) Fail("AddHeadAndGet() must expose a default item"); if (p) *p = x2; m.push_front(x2); } break;
      case 68: { OP("compare"); Queue<T> c(*q); std::deque<T> cm(m); if (sz && R(2)) { uint32 at = R(sz); T x = Conv<T>::Make(range); (void)c.ReplaceItemAt(at, x); cm[at] = x; } else if (R(2)) { T x = Conv<T>::Make(range); (void)c.AddTail(x); cm.push_back(x); } if ((c == *q) != (cm == m)) Fail("=="); if ((c != *q) != (cm != m)) Fail("!="); if ((c < *q) != (cm < m)) Fail("<"); if ((c > *q) != (cm > m)) Fail(">"); if ((c <= *q) != (cm <= m)) Fail("<="); if ((c >= *q) != (cm >= m)) Fail(">="); } break;
      case 70: { static const int32 S[] = {1, -1, 2, -2, 3, -3, 5}; const int32 st = S[R(7)]; const uint32 start = R(sz + 3); OP("iterator-surface start=%u stride=%d of %u", start, st, sz);
                 std::vector<uint32> want; { uint32 idx = start; while (idx < sz && want.size() <= sz) { want.push_back(idx); idx += (uint32)st; } }
                 // every route to an iterator equivalent to (queue, start, stride) must visit exactly the model's items at start, start+stride, ...
                 QueueIterator<T> a(*q, start, st); QueueIterator<T> b(a); QueueIterator<T> c; c = a; QueueIterator<T> d(*q, R(sz + 1), -st); { QueueIterator<T> e(a); d.SwapContents(e); }
                 QueueIterator<T> f(*q, R(sz + 1), R(2) ? 1 : -1); f = a;
                 ConstQueueIterator<T> ca(*q, start, st); ConstQueueIterator<T> cb(a); ConstQueueIterator<T> cc; cc = a; ConstQueueIterator<T> cd(*q, R(sz + 1), R(2) ? 1 : -1); cd = a;
                 ConstQueueIterator<T> ce(*q, R(sz + 1), -st); ce = ca; ConstQueueIterator<T> cf(ca); ConstQueueIterator<T> cg(*q, R(sz + 1), 1); { ConstQueueIterator<T> t(ca); cg.SwapContents(t); }
                 if (!WalkOK(a, want, m, st)) Fail("QueueIterator(queue,start,stride)"); if (!WalkOK(b, want, m, st)) Fail("QueueIterator copy-constructed"); if (!WalkOK(c, want, m, st)) Fail("default QueueIterator assigned");
                 if (!WalkOK(d, want, m, st)) Fail("QueueIterator SwapContents"); if (!WalkOK(f, want, m, st)) Fail("used QueueIterator assigned");
                 if (!WalkOK(ca, want, m, st)) Fail("ConstQueueIterator(queue,start,stride)"); if (!WalkOK(cb, want, m, st)) Fail("ConstQueueIterator constructed from QueueIterator"); if (!WalkOK(cc, want, m, st)) Fail("default ConstQueueIterator assigned from QueueIterator");
                 if (!WalkOK(cd, want, m, st)) Fail("used ConstQueueIterator assigned from QueueIterator"); if (!WalkOK(ce, want, m, st)) Fail("used ConstQueueIterator assigned from ConstQueueIterator"); if (!WalkOK(cf, want, m, st)) Fail("ConstQueueIterator copy-constructed"); if (!WalkOK(cg, want, m, st)) Fail("ConstQueueIterator SwapContents");
                 { QueueIterator<T> w(a); uint32 steps = R(4); for (uint32 i = 0; i < steps; i++) w++; for (uint32 i = 0; i < steps; i++) w--; if (w.GetIndex() != start) Fail("++ then -- does not return to the start index"); if (&w.GetQueue() != q) Fail("GetQueue"); }
                 { QueueIterator<T> z; ConstQueueIterator<T> cz; if (z.HasData() || cz.HasData()) Fail("default-constructed iterator has data"); }
                 vh::stat("iterator_surface_checks"); if (st != 1) vh::stat("iterator_surface_nonunit_stride"); if (!want.empty() && st != 1) vh::stat("iterator_surface_nonunit_stride_nonempty_walk"); } break;
      default: { OP("AddTailDefault"); if (R(2)) { (void)q->AddTail(); m.push_back(Conv<T>::Def()); } else { (void)q->AddHead(); m.push_front(Conv<T>::Def()); } } break;
      }
      if (!caseBad) { Audit(*q, m); AuditLive(*q, m, live0 + 1 /* the loop's own v */); }
      if (m.size() > maxSize) maxSize = (uint32)m.size();
      if (q->GetNumAllocatedItemSlots() > 3) heap = true;
      if (!q->IsNormalized()) wrapped = true;
      if (m.size() > 6000) { OP("ClearBig"); q->Clear(); m.clear(); }
   }
   vh::distinct(vh::fnvs(vh::fmt("%s|%u|", typeName, maxSize), vh::fnv(&cs, sizeof(cs))), maxSize > 3 && heap);
   if (wrapped) vh::stat("cases_with_ring_wraparound"); if (heap) vh::stat("cases_beyond_inline_buffer"); if (shrunk) vh::stat("cases_with_shrink"); if (big) vh::stat("cases_big");
   vh::statmax("max_items", maxSize);
   if (vh::want_sample() && !trace.empty()) { std::string s = std::string(typeName) + ": "; for (size_t i = 0; i < trace.size() && i < 25; i++) { s += trace[i]; s += "; "; } vh::sample(vh::fmt("case %ld: ", k) + s + "..."); }
   delete q;
   }
   if (!caseBad && Own::live != live0) { opname = "destruction"; Fail(vh::fmt("live payloads %ld after destruction, expected %ld", Own::live, live0)); }
}

// ---- fixed witnesses and documentation examples (every run)
static void Regress()
{
   vh::begin_case(0); typeName = "int32"; trace.clear(); caseBad = false;
   { // F19: EnsureSize(n,true) must expose default items (trivial item type)
      opname = "regress-F19-stale"; Queue<int32> q; (void)q.AddTail(111); (void)q.AddTail(222); (void)q.AddTail(333); q.Clear(); (void)q.EnsureSize(3, true);
      if (q.GetNumItems() != 3 || q[0] != 0 || q[1] != 0 || q[2] != 0) { caseBad = false; Fail(vh::fmt("after AddTail x3, Clear, EnsureSize(3,true): %d %d %d", q[0], q[1], q[2])); }
      opname = "regress-F19-fresh"; Queue<int32> f; (void)f.EnsureSize(40, true); bool ok = f.GetNumItems() == 40; for (uint32 i = 0; ok && i < 40; i++) if (f[i] != 0) ok = false; if (!ok) { caseBad = false; Fail("EnsureSize(40,true) on a fresh Queue<int32> exposes non-default items"); }
   }
   vh::begin_case(1);
   { // F20
      opname = "regress-F20"; Queue<int32> q; (void)q.EnsureSize(20); (void)q.AddTail(1); (void)q.AddTail(2); (void)q.AddTail(3); (void)q.AddHeadMulti(q);
      int32 want[6] = {1, 2, 3, 1, 2, 3}; bool ok = q.GetNumItems() == 6; for (uint32 i = 0; ok && i < 6; i++) if (q[i] != want[i]) ok = false; if (!ok) { caseBad = false; Fail("AddHeadMulti(self) with spare capacity: wrong contents"); }
      Queue<int32> p; (void)p.EnsureSize(20); (void)p.AddTail(1); (void)p.AddTail(2); (void)p.AddTail(3); (void)p.InsertItemsAt(0, p);
      ok = p.GetNumItems() == 6; for (uint32 i = 0; ok && i < 6; i++) if (p[i] != want[i]) ok = false; if (!ok) { caseBad = false; Fail("InsertItemsAt(0,self) with spare capacity: wrong contents"); }
   }
   vh::begin_case(2);
   { // F21 (ASan decides: heap-buffer-overflow WRITE in EnsureSizeAux)
      opname = "regress-F21"; for (int setNum = 0; setNum < 2; setNum++) { Queue<int32> q; for (int i = 0; i < 40; i++) (void)q.AddTail(i); (void)q.EnsureSize(5, setNum != 0, 0, true); uint32 want = setNum ? 5 : 40; if (q.GetNumItems() != want) { caseBad = false; Fail(vh::fmt("EnsureSize(5,%d,0,true) on 40 items leaves %u items", setNum, q.GetNumItems())); } for (uint32 i = 0; i < q.GetNumItems(); i++) if (q[i] != (int32)i) { caseBad = false; Fail("contents changed"); break; } }
   }
   vh::begin_case(3);
   { // documentation examples of Queue.h
      opname = "docex"; Queue<int32> q; (void)q.AddTail(5); (void)q.InsertItemAt(99, 6);   // "if index is greater than the number of items, the item is appended"
      if (q.GetNumItems() != 2 || q[1] != 6) { caseBad = false; Fail("InsertItemAt(beyond end) is documented to append"); }
   }
   vh::begin_case(4);
   { // F55: Normalize()'s rotate branch touched never-written spare slots (invalid bool load under UBSan on an affected tree: the run aborts here)
      opname = "regress-F55"; Queue<bool> q; for (int i = 0; i < 9; i++) (void)q.AddTail(true); (void)q.AddHead(false); q.Normalize();
      bool ok = q.GetNumItems() == 10 && q.IsNormalized(); for (uint32 i = 0; ok && i < 10; i++) if (q[i] != (i > 0)) ok = false;
      if (!ok) { caseBad = false; Fail("Normalize() of a wrapped Queue<bool> changed the contents"); }
      vh::stat("regress_F55_checked");
   }
   vh::begin_case(5);
   { // seeded C16-6: an existing ConstQueueIterator assigned from a backward QueueIterator must keep the source's stride
      opname = "regress-iterator-assign-stride"; Queue<int32> q; for (int i = 0; i < 5; i++) (void)q.AddTail(i);
      ConstQueueIterator<int32> ci(q, 0, 1); ci = q.GetBackwardIterator(); int n = 0, last = -1; bool ok = true; for (; ci.HasData(); ci++) { if (n == 0 ? (*ci != 4) : (*ci != last - 1)) ok = false; last = *ci; n++; }
      if (!ok || n != 5) { caseBad = false; Fail("a ConstQueueIterator assigned from GetBackwardIterator() does not walk the queue backwards"); }
      vh::stat("regress_iterator_assign_checked");
   }
   vh::distinct(1); vh::distinct(2); vh::distinct(3); vh::distinct(4); vh::distinct(5);
}

int main(int argc, char ** argv)
{
   CompleteSetupSystem css;
   vh::init(argc, argv);
   vh::Ctx & c = vh::ctx();
   std::string mode = vh::opt("mode", "model");
   if (mode == "regress") { Regress(); return vh::finish(); }
   for (long k = c.from; k < c.from + c.cases; k++) {
      vh::begin_case(k);
      uint64_t cs = vh::case_seed(c.seed, 16, (uint64_t)k);
      switch (k % 7) { case 0: case 3: RunCase<int32>(k, cs); break; case 1: case 4: RunCase<String>(k, cs); break; case 6: RunCase<bool>(k, cs); break; default: RunCase<Own>(k, cs); break; }
   }
   return vh::finish();
}
