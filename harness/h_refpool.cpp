// h_refpool -- C10: Ref / ConstRef / ObjectPool lifecycle monitor on the thread bench (asan and tsan builds, same workload).
// One case = (1) a single-threaded history of the reference operations, audited exactly after every operation, then
// (2) the same operations from 2..8 threads that own private Ref/ConstRef variables and exchange copies through
// harness mailboxes, in mixed mode (many short-lived objects) or HOT mode (8 threads, 2 mailboxes, a new object only
// every ~40th operation), with one delay placement (site x role x kind) armed on the guarded hooks of RefCount.h /
// ObjectPool.h, chosen round-robin over the case index.  Three pools (1, 3 and 8 objects per slab, max size 2..16)
// plus plain heap objects; objects may hold a reference to an older object (nested release).
// Monitors: lifecycle word CAS (POOLED/IN_USE/DEAD), shadow count (<= real count by construction), incarnation serial
// checked at every dereference, exact audits at barriers (all threads parked: real count == references, live ==
// reachable, constructed - destroyed == slab slots + heap objects, PerformSanityCheck), quiescence accounting.
// The monitor's own words are relaxed atomics: they add no happens-before edge that could hide a race from TSan.
// modes (--opt mode=): run (default) | regress (documentation examples of the anchored headers; C10 has no repaired finding)
// other options: ops=<percent of the default operation count>, only=st|hot|mixed, nodelay (no delay placement at all; for experiments)
#include "util/RefCount.h"
#include "util/ObjectPool.h"
#include "system/SetupSystem.h"
#include <thread>
#include <atomic>
#include <mutex>
#include <vector>
#include <set>
#include <string>
#include <utility>
#include <pthread.h>
#include <sched.h>
#include "vh.h"
#include "hookrt.h"
using namespace muscle;

#define RLX std::memory_order_relaxed
enum { POOLED = 1, IN_USE = 2, DEAD = 3 };
static const char * StName(int s) { return s == POOLED ? "POOLED" : s == IN_USE ? "IN_USE" : s == DEAD ? "DEAD" : "GARBAGE"; }

static void HarnessAbort(const char * why) { fprintf(stderr, "HARNESS-ABORT: %s\n", why); fflush(stderr); abort(); }

// ---- observation counters: plain per-thread arrays (no shared cache line, no synchronisation), summed by the main thread
enum { C_CTOR, C_DTOR, C_OBTAIN, C_HEAPNEW, C_RECYCLE, C_HEAPDTOR, C_SLABOBJ_DTOR, C_OFFTHREAD, C_NESTED, C_DROP, C_DEREF, C_DEREF_NONCOUNTING,
       C_TAKE, C_PUT, C_ASSIGN, C_COPYCTOR, C_RESET, C_SWAP, C_CONST_IN, C_CONST_OUT, C_SETREF_OFF, C_SETREF_ON, C_NEUTRALIZE, C_NEUTRALIZE_SOLE, C_MOVE, C_DUMMY,
       C_GENERIC, C_RAWSET, C_SETREF_OTHER_ON_OFF, C_SETREF_OTHER_OFF_ON, C_ASSIGN_OTHER_MODE, C_SWAP_MODES, C_CLONE_POOL, C_CLONE_HEAP, C_ENSURE_PRIVATE, C_STATUS, C_SELF, C_SANITY, C_DRAIN, C_CHILD_LINK, NC };
static const char * const CName[NC] = { "objects_constructed", "objects_destroyed", "pool_obtains", "heap_objects_created", "pool_recycles", "heap_objects_deleted",
   "pooled_objects_destroyed_by_slab_deletion", "last_drop_on_other_thread_than_creator", "nested_releases", "reference_drops", "monitored_dereferences", "dereferences_through_noncounting_ref",
   "op_mailbox_take", "op_mailbox_put", "op_assign", "op_copy_construct", "op_reset", "op_swap", "op_to_constref", "op_cast_away_const", "op_setref_counting_off", "op_setref_counting_on",
   "op_neutralize", "op_neutralize_sole_owner", "op_move", "op_dummyref", "op_refcountableref_roundtrip", "op_setref_raw_pointer", "op_setref_other_object_mode_change_on_to_off", "op_setref_other_object_mode_change_off_to_on", "op_assign_other_object_mode_change", "op_swap_different_modes", "op_clone_pooled", "op_clone_heap", "op_ensure_private",
   "op_status", "op_self_assign", "op_sanity_check_concurrent", "op_drain_concurrent", "objects_holding_a_child_reference" };

static std::atomic<int> g_bad(0);
static std::atomic<uint64_t> g_serial(0);
static long g_mainCnt[NC];
static __thread int t_me = -1;
static __thread long * t_cnt = NULL;
static __thread int t_depth = 0;                       // nesting depth of release events on this thread
static __thread const char * t_ring[12]; static __thread unsigned t_ringN = 0;
static std::string g_caseDesc;                         // written by the main thread while no worker runs
static const char * g_phase = "st";
static long g_defaultObjects = 0;

static inline void Cnt(int c, long n = 1) { t_cnt[c] += n; }
static inline void OpNote(const char * s) { t_ring[t_ringN++ % 12] = s; }
static inline bool Bad() { return g_bad.load(RLX) != 0; }

static void Fail(const std::string & rule, const std::string & what)
{
   int e = 0; if (!g_bad.compare_exchange_strong(e, 1)) return;   // one violation per case: the rest is noise
   std::string d = what + " | " + g_caseDesc + vh::fmt(" | phase %s, thread %d, its last operations: ", g_phase, t_me);
   unsigned n = t_ringN; for (unsigned i = (n > 12 ? n - 12 : 0); i < n; i++) { d += t_ring[i % 12]; d += ' '; }
   vh::viol(std::string(g_phase) + "|" + rule, d);
}

struct Tracked;
static std::string Desc(const Tracked * t);

struct Tracked : public RefCountable {
   // the monitor's own words: never copied, never reset by the library
   mutable std::atomic<int> st; mutable std::atomic<int> shadow; mutable std::atomic<uint64_t> serial;
   mutable bool isDefault; std::atomic<bool> heapObj; std::atomic<int> creator;
   // content (what a pool must reset): a heap payload so that ASan sees a use after recycle/free, and a reference to an older object
   int * payload; int id; int depth; uint64_t childSerial; Ref<Tracked> child;

   Tracked() : st(POOLED), shadow(0), serial(0), isDefault(false), heapObj(false), creator(-1), payload(new int[4]), id(0), depth(0), childSerial(0)
   { payload[0] = 0; payload[1] = 0x5a5a; if (t_cnt) Cnt(C_CTOR); }

   // used by CloneObject() (ConstRef::Clone() of an object without a manager): the copy is a plain heap object
   Tracked(const Tracked & rhs) : RefCountable(rhs), st(POOLED), shadow(0), serial(0), isDefault(false), heapObj(true), creator(-1), payload(new int[4]), id(rhs.id), depth(rhs.depth), childSerial(rhs.childSerial), child(rhs.child)
   { payload[0] = rhs.payload[0]; payload[1] = 0x5a5a; if (child()) child()->shadow.fetch_add(1, RLX); Cnt(C_CTOR); }

   Tracked & operator=(const Tracked & rhs)
   {
      if (this == &rhs) return *this;
      if (isDefault) HarnessAbort("something assigned to the default object");
      if (rhs.isDefault) {
         // ObjectPool::ReleaseObject(): "*obj = GetDefaultObject()" IS the recycle event
         const int sh = shadow.load(RLX);
         if (sh > 0) Fail("recycled_while_referenced", "ReleaseObject() resets an object to which references still exist: " + Desc(this));
         int e = IN_USE;
         if (!st.compare_exchange_strong(e, POOLED, RLX)) Fail(std::string("recycle_found_object_") + StName(e), "ReleaseObject() of an object that is not in use (released twice?): " + Desc(this));
         else if (heapObj.load(RLX)) Fail("recycle_of_heap_object", Desc(this));
         Cnt(C_RECYCLE); if (creator.load(RLX) != t_me) Cnt(C_OFFTHREAD); if (t_depth > 0) Cnt(C_NESTED);
         t_depth++;
         payload[0] = 0; id = 0; depth = 0; childSerial = 0; creator.store(-1, RLX);
         if (child()) child()->shadow.fetch_sub(1, RLX);
         child = rhs.child;                         // a NULL reference: drops the child, possibly recycling it from inside this recycle
         t_depth--;
      } else {
         // ConstRef::Clone(): "*newItem = *item" into an object just obtained from the source's pool (still POOLED for the monitor)
         payload[0] = rhs.payload[0]; id = rhs.id; depth = rhs.depth; childSerial = rhs.childSerial;
         if (child()) child()->shadow.fetch_sub(1, RLX);
         child = rhs.child;
         if (child()) child()->shadow.fetch_add(1, RLX);
      }
      return *this;
   }

   virtual ~Tracked()
   {
      if (!isDefault) {
         const int s = st.load(RLX);
         if (heapObj.load(RLX) && s != POOLED) {
            if (shadow.load(RLX) > 0) Fail("destroyed_while_referenced", "delete of an object to which references still exist: " + Desc(this));
            int e = IN_USE;
            if (!st.compare_exchange_strong(e, DEAD, RLX)) Fail(std::string("destroy_found_object_") + StName(e), "delete of a heap object that is not in use (deleted twice?): " + Desc(this));
            Cnt(C_HEAPDTOR); if (creator.load(RLX) != t_me) Cnt(C_OFFTHREAD); if (t_depth > 0) Cnt(C_NESTED);
         } else {
            if (s != POOLED) Fail(std::string("pooled_object_destroyed_while_") + StName(s), "an object that lives in a pool slab was destroyed (slab deletion or a plain delete) while it was handed out: " + Desc(this));
            st.store(DEAD, RLX); if (!heapObj.load(RLX)) Cnt(C_SLABOBJ_DTOR);
         }
         Cnt(C_DTOR);
         t_depth++; if (child()) child()->shadow.fetch_sub(1, RLX); child.Reset(); t_depth--;
      }
      delete [] payload; payload = NULL;
   }
};
DECLARE_REFTYPES(Tracked);

static std::string Desc(const Tracked * t)
{
   // reads only atomics: the object may be under concurrent (faulty) modification when it is described
   return vh::fmt("object{incarnation %llu, created by thread %d, %s, lifecycle %s, references known to the harness %d, library count %d}", (unsigned long long)t->serial.load(RLX), t->creator.load(RLX),
                  t->heapObj.load(RLX) ? "heap" : "pooled", StName(t->st.load(RLX)), t->shadow.load(RLX), (int)t->GetRefCount());
}

// ---- pools: three slab geometries behind one small interface
struct PoolBox {
   uint32 maxSize; uint32 perSlab;
   PoolBox() : maxSize(0), perSlab(0) {}
   virtual ~PoolBox() {}
   virtual Tracked * Obtain() = 0; virtual uint32 Slots() const = 0; virtual void Sanity() const = 0; virtual void Drain() = 0; virtual const AbstractObjectManager * Mgr() const = 0;
   virtual void Release(Tracked * t) = 0; virtual status_t Prefill(uint32 n) = 0;
};
template<int SLAB> struct PoolBoxT : public PoolBox {
   ObjectPool<Tracked, SLAB> p;
   explicit PoolBoxT(uint32 m) : p(m) { maxSize = m; }
   virtual Tracked * Obtain() { return p.ObtainObject(); }
   virtual uint32 Slots() const { return p.GetNumAllocatedItemSlots(); }
   virtual void Sanity() const { p.PerformSanityCheck(); }
   virtual void Drain() { p.Drain(); }
   virtual const AbstractObjectManager * Mgr() const { return &p; }
   virtual void Release(Tracked * t) { p.ReleaseObject(t); }
   virtual status_t Prefill(uint32 n) { return p.Prefill(n); }
};
enum { NODE_BYTES = (int)sizeof(Tracked) + 8, SLAB1 = 48 + NODE_BYTES, SLAB3 = 48 + 3 * NODE_BYTES, SLAB8 = 48 + 8 * NODE_BYTES, NPOOLS = 3 };
static PoolBox * MakePool(int which, uint32 maxSize) { PoolBox * p = which == 0 ? (PoolBox *)new PoolBoxT<SLAB1>(maxSize) : which == 1 ? (PoolBox *)new PoolBoxT<SLAB3>(maxSize) : (PoolBox *)new PoolBoxT<SLAB8>(maxSize); p->perSlab = which == 0 ? 1 : which == 1 ? 3 : 8; return p; }

// ---- a reference variable owned by one thread (or a mailbox): the muscle reference under test + what its owner knows
// shadow discipline: Up() AFTER the real reference exists, Down() BEFORE it is dropped  =>  shadow <= real at all times
template<class R> struct Hold {
   R r; uint64_t serial; bool counting;
   Hold() : serial(0), counting(true) {}
   Hold(const Hold & o) : r(o.r), serial(o.serial), counting(o.counting) { Up(); Cnt(C_COPYCTOR); }
   ~Hold()
   {
      if (Bad()) { R * leak = new R(); leak->SwapContents(r); return; }   // after a violation nothing touches the objects of the case any more
      Down();
   }
   void Up() const { const Tracked * o = r(); if (o && counting) o->shadow.fetch_add(1, RLX); }
   void Down() { const Tracked * o = r(); if (o && counting) { o->shadow.fetch_sub(1, RLX); Cnt(C_DROP); } }
private:
   Hold & operator=(const Hold &);
};
typedef Hold<TrackedRef> H;
typedef Hold<ConstTrackedRef> CH;

template<class R> static bool Check(const Hold<R> & h)
{
   const Tracked * o = h.r();
   if ((o != NULL) != (h.serial != 0)) { Fail("reference_lost_or_appeared", vh::fmt("a reference variable that should %s an object %s", h.serial ? "hold" : "not hold", o ? "holds one" : "is NULL")); return false; }
   if (h.r.IsRefCounting() != (o != NULL && h.counting)) { Fail("isrefcounting_flag_wrong", vh::fmt("IsRefCounting() is %d, expected %d: ", (int)h.r.IsRefCounting(), (int)(o != NULL && h.counting)) + (o ? Desc(o) : std::string("NULL"))); return false; }
   if (h.r.IsValid() != (o != NULL) || h.r.IsNull() != (o == NULL)) { Fail("isvalid_isnull", "IsValid()/IsNull() disagree with GetItemPointer()"); return false; }
   return true;
}

// every dereference of a held reference: the object is IN_USE and still the incarnation the holder got
template<class R> static void Use(const Hold<R> & h)
{
   if (!Check(h)) return;
   const Tracked * o = h.r();
   if (!o) { if (h.r.GetStatus().IsOK()) Fail("null_reference_reports_ok_status", "GetStatus() of a NULL reference is B_NO_ERROR"); return; }
   Cnt(h.counting ? C_DEREF : C_DEREF_NONCOUNTING);
   const int s = o->st.load(RLX);
   if (s != IN_USE) { Fail(std::string("dereferenced_object_is_") + StName(s), "a held reference points to an object that was released: " + Desc(o)); return; }
   const uint64_t ser = o->serial.load(RLX);
   if (ser != h.serial) { Fail("dereferenced_object_is_a_later_incarnation", vh::fmt("the holder got incarnation %llu; the object was recycled and handed out again: ", (unsigned long long)h.serial) + Desc(o)); return; }
   if (h.counting && (int32)o->GetRefCount() < 1) { Fail("refcount_below_one_while_held", Desc(o)); return; }
   if (o->payload[0] != o->id || o->id != (int)(ser & 0x3fffffff) + 1) { Fail("content_changed_while_referenced", vh::fmt("payload %d, ", o->payload[0]) + Desc(o)); return; }
   if (!h.r.GetStatus().IsOK()) { Fail("valid_reference_reports_error_status", h.r.GetStatus()()); return; }
   const Tracked * c = o->child();
   if (c) {
      const int cs = c->st.load(RLX);
      if (cs != IN_USE) Fail(std::string("child_of_referenced_object_is_") + StName(cs), "parent " + Desc(o) + " child " + Desc(c));
      else if (c->serial.load(RLX) != o->childSerial) Fail("child_of_referenced_object_is_a_later_incarnation", "parent " + Desc(o) + " child " + Desc(c));
   } else if (o->childSerial != 0) Fail("child_reference_lost", Desc(o));
}

template<class RD, class RS> static void Assign(Hold<RD> & d, const Hold<RS> & s)
{
   d.Down(); d.r = s.r; d.serial = s.serial; d.counting = s.serial ? s.counting : true; d.Up(); Cnt(C_ASSIGN); (void)Check(d);
}
template<class R> static void Drop(Hold<R> & h) { h.Down(); h.r.Reset(); h.serial = 0; h.counting = true; Cnt(C_RESET); (void)Check(h); }
template<class R> static void Swap(Hold<R> & a, Hold<R> & b) { a.r.SwapContents(b.r); std::swap(a.serial, b.serial); std::swap(a.counting, b.counting); Cnt(C_SWAP); }

// the new owner of a just-obtained object: lifecycle POOLED -> IN_USE, default content, then stamp the incarnation
static void Fresh(Tracked * t, bool heap, bool cloned, const AbstractObjectManager * mgr)
{
   int e = POOLED;
   if (!t->st.compare_exchange_strong(e, IN_USE, RLX)) { Fail(std::string("obtained_object_is_") + StName(e), "an object was handed out while it is in use elsewhere (two owners): " + Desc(t)); return; }
   if (t->shadow.load(RLX) > 0) { Fail("obtained_while_previous_incarnation_referenced", Desc(t)); return; }
   if (!cloned) {
      if (t->payload[0] != 0 || t->id != 0 || t->child() != NULL || t->depth != 0 || t->childSerial != 0) { Fail("obtained_object_not_in_default_state", vh::fmt("payload %d child %p depth %d: ", t->payload[0], (const void *)t->child(), t->depth) + Desc(t)); return; }
      if ((int32)t->GetRefCount() != 0) { Fail("obtained_object_has_nonzero_refcount", Desc(t)); return; }
   }
   if (t->GetManager() != mgr) { Fail("obtained_object_has_wrong_manager", Desc(t)); return; }
   const uint64_t s = g_serial.fetch_add(1, RLX) + 1;
   t->serial.store(s, RLX); t->id = (int)(s & 0x3fffffff) + 1; t->payload[0] = t->id; t->creator.store(t_me, RLX); t->heapObj.store(heap, RLX);
}

struct CaseState;
struct Th {
   enum { NM = 5, NCM = 2 };
   CaseState * cs; int idx; vh::Rng rng; long nOps; H mine[NM]; CH cmine[NCM]; long cnt[NC];
   Th(CaseState * c, int i, uint64_t seed, long n) : cs(c), idx(i), rng(seed), nOps(n) { memset(cnt, 0, sizeof(cnt)); }
};
struct Slot { std::mutex m; H h; };
struct CaseState {
   PoolBox * pools[NPOOLS]; Slot slots[6]; uint32 nSlots; bool hot; bool single; int nT; std::vector<Th *> th; pthread_barrier_t bar; long audits;
   CaseState() : nSlots(6), hot(false), single(true), nT(1), audits(0) { for (int i = 0; i < NPOOLS; i++) pools[i] = NULL; }
};
static long Sum(const CaseState & cs, int c) { long n = g_mainCnt[c]; for (size_t i = 0; i < cs.th.size(); i++) n += cs.th[i]->cnt[c]; return n; }

// Exact audit; only called while every thread of the case is parked (barrier) or in the single-threaded phase.
// Every reference variable of the case is visible here, so: library count == number of references, objects alive ==
// objects reachable, constructed - destroyed == slab slots + live heap objects, pool structures consistent.
static void Audit(CaseState & cs, bool quiescent)
{
   enum { MAXSEEN = 1024 };
   const Tracked * seen[MAXSEEN]; int n = 0;
   std::vector<std::pair<const Tracked *, uint64_t> > roots;
   for (size_t i = 0; i < cs.th.size(); i++) { Th & T = *cs.th[i]; for (int j = 0; j < Th::NM; j++) { (void)Check(T.mine[j]); roots.push_back(std::make_pair((const Tracked *)T.mine[j].r(), T.mine[j].serial)); } for (int j = 0; j < Th::NCM; j++) { (void)Check(T.cmine[j]); roots.push_back(std::make_pair(T.cmine[j].r(), T.cmine[j].serial)); } }
   for (uint32 i = 0; i < 6; i++) { (void)Check(cs.slots[i].h); roots.push_back(std::make_pair((const Tracked *)cs.slots[i].h.r(), cs.slots[i].h.serial)); }
   if (Bad()) return;
   for (size_t i = 0; i < roots.size(); i++) {
      const Tracked * o = roots[i].first; uint64_t ser = roots[i].second;
      while (o) {
         bool dup = false; for (int q = 0; q < n; q++) if (seen[q] == o) { dup = true; break; }
         const int s = o->st.load(RLX);
         if (s != IN_USE) { Fail(std::string("audit_referenced_object_is_") + StName(s), Desc(o)); return; }
         if (o->serial.load(RLX) != ser) { Fail("audit_referenced_object_is_a_later_incarnation", Desc(o)); return; }
         if (dup) break;
         if (n >= MAXSEEN) HarnessAbort("audit table too small");
         seen[n++] = o;
         const int real = (int32)o->GetRefCount(), sh = o->shadow.load(RLX);
         if (real != sh) { Fail(real < sh ? "audit_refcount_below_number_of_references" : "audit_refcount_above_number_of_references", vh::fmt("all threads parked: library count %d, references held %d: ", real, sh) + Desc(o)); return; }
         ser = o->childSerial; o = o->child();
      }
   }
   const long live = Sum(cs, C_OBTAIN) + Sum(cs, C_HEAPNEW) - Sum(cs, C_RECYCLE) - Sum(cs, C_HEAPDTOR);
   if (live != n) { Fail(live > n ? "audit_unreferenced_object_not_released" : "audit_referenced_object_was_released", vh::fmt("all threads parked: %ld objects handed out and not released, %d objects reachable through references", live, n)); return; }
   long slots = 0; for (int i = 0; i < NPOOLS; i++) { cs.pools[i]->Sanity(); slots += cs.pools[i]->Slots(); }
   const long heapLive = Sum(cs, C_HEAPNEW) - Sum(cs, C_HEAPDTOR), objs = Sum(cs, C_CTOR) - Sum(cs, C_DTOR);
   if (objs != slots + heapLive) { Fail("audit_constructed_minus_destroyed", vh::fmt("%ld objects exist, the pools account for %ld slots and %ld heap objects are alive", objs, slots, heapLive)); return; }
   if (quiescent) {
      if (n != 0) { Fail("quiescence_objects_never_released", vh::fmt("%d objects still referenced after every reference variable was reset", n)); return; }
      if (Sum(cs, C_OBTAIN) != Sum(cs, C_RECYCLE)) { Fail("quiescence_obtains_differ_from_recycles", vh::fmt("%ld obtains, %ld recycles", Sum(cs, C_OBTAIN), Sum(cs, C_RECYCLE))); return; }
      if (heapLive != 0) { Fail("quiescence_heap_objects_never_deleted", vh::fmt("%ld", heapLive)); return; }
   }
   cs.audits++;
}

static const char g_errText[] = "XEven error\0Odd error";   // two error strings 11 bytes apart: one at an even and one at an odd address
static status_t ErrOf(int i) { switch (i & 3) { case 0: return status_t(g_errText + 1); case 1: return status_t(g_errText + 12); case 2: return B_BAD_ARGUMENT; default: return B_OUT_OF_MEMORY; } }

enum { OP_CREATE, OP_TAKE, OP_PUT, OP_COPY, OP_DROP, OP_SWAP, OP_CONST_IN, OP_CONST_OUT, OP_USE, OP_TEMP, OP_SETREF, OP_NEUTRAL, OP_MOVE, OP_DUMMY, OP_GENERIC, OP_RAWSET, OP_CLONE, OP_STATUS, OP_SELF, OP_PRIVATE, OP_MODESWITCH };
static const int g_mixedTable[] = { OP_CREATE, OP_CREATE, OP_CREATE, OP_CREATE, OP_TAKE, OP_TAKE, OP_TAKE, OP_TAKE, OP_TAKE, OP_PUT, OP_PUT, OP_PUT, OP_PUT, OP_PUT, OP_COPY, OP_COPY, OP_COPY, OP_DROP, OP_DROP, OP_DROP,
   OP_SWAP, OP_SWAP, OP_CONST_IN, OP_CONST_IN, OP_CONST_OUT, OP_CONST_OUT, OP_USE, OP_USE, OP_USE, OP_TEMP, OP_TEMP, OP_SETREF, OP_SETREF, OP_NEUTRAL, OP_NEUTRAL, OP_MOVE, OP_DUMMY, OP_GENERIC, OP_RAWSET, OP_CLONE, OP_STATUS, OP_SELF, OP_PRIVATE, OP_MODESWITCH, OP_MODESWITCH, OP_MODESWITCH, OP_MODESWITCH };
static const int g_hotTable[] = { OP_TAKE, OP_TAKE, OP_TAKE, OP_TAKE, OP_TAKE, OP_TAKE, OP_PUT, OP_PUT, OP_PUT, OP_PUT, OP_PUT, OP_PUT, OP_COPY, OP_COPY, OP_COPY, OP_DROP, OP_DROP, OP_DROP,
   OP_SWAP, OP_SWAP, OP_CONST_IN, OP_CONST_OUT, OP_CONST_OUT, OP_USE, OP_USE, OP_TEMP, OP_TEMP, OP_SETREF, OP_NEUTRAL, OP_MOVE, OP_DUMMY, OP_GENERIC, OP_RAWSET, OP_SELF, OP_MODESWITCH, OP_MODESWITCH, OP_MODESWITCH };

static void Create(Th & T, H & dst)
{
   vh::Rng & g = T.rng; CaseState & cs = *T.cs;
   const int which = g.R(NPOOLS + 1);
   Tracked * t;
   if (which < NPOOLS) { OpNote("obtain"); t = cs.pools[which]->Obtain(); if (!t) HarnessAbort("ObtainObject() returned NULL"); Cnt(C_OBTAIN); Fresh(t, false, false, cs.pools[which]->Mgr()); }
   else { OpNote("new"); t = new Tracked; Cnt(C_HEAPNEW); Fresh(t, true, false, NULL); }
   if (Bad()) return;
   if (g.R(4) == 0) {
      const H & c = T.mine[g.R(Th::NM)]; const Tracked * co = c.r();
      if (co && co->depth < 3) { t->child = c.r; co->shadow.fetch_add(1, RLX); t->childSerial = c.serial; t->depth = co->depth + 1; Cnt(C_CHILD_LINK); }
   }
   H tmp; tmp.r = TrackedRef(t); tmp.serial = t->serial.load(RLX); tmp.counting = true; tmp.Up();
   Use(tmp); Assign(dst, tmp);
}

static void DoOp(Th & T)
{
   vh::Rng & g = T.rng; CaseState & cs = *T.cs;
   H & A = T.mine[g.R(Th::NM)]; H & B = T.mine[g.R(Th::NM)]; CH & C = T.cmine[g.R(Th::NCM)];
   int op;
   if (cs.hot) op = (g.R(40) == 0) ? OP_CREATE : g_hotTable[g.R(sizeof(g_hotTable) / sizeof(int))];
   else op = g_mixedTable[g.R(sizeof(g_mixedTable) / sizeof(int))];
   if (g.R(150) == 0) { OpNote("PerformSanityCheck"); cs.pools[g.R(NPOOLS)]->Sanity(); Cnt(C_SANITY); }
   if (g.R(400) == 0) { OpNote("Drain"); cs.pools[g.R(NPOOLS)]->Drain(); Cnt(C_DRAIN); }
   switch (op) {
   case OP_CREATE: Create(T, A); break;
   case OP_PUT: if (A.r() || g.R(8) == 0) { OpNote("put"); Slot & s = cs.slots[g.R(cs.nSlots)]; H t; Assign(t, A); { std::lock_guard<std::mutex> lk(s.m); Swap(t, s.h); } Cnt(C_PUT); Use(t); break; }   // the mailbox's old value is dropped here, outside the lock
      // fall through: nothing to publish, take instead (NULL references would otherwise crowd out the objects)
   case OP_TAKE: { OpNote("take"); Slot & s = cs.slots[g.R(cs.nSlots)]; H t; { std::lock_guard<std::mutex> lk(s.m); Assign(t, s.h); } Cnt(C_TAKE); Use(t); if (t.r() || g.R(8) == 0) Assign(A, t); } break;
   case OP_COPY: OpNote("assign"); if (B.r() || g.R(8) == 0) Assign(A, B); Use(A); break;
   case OP_DROP: OpNote("reset"); Drop(A); break;
   case OP_SWAP: OpNote("swap"); Swap(A, B); (void)Check(A); (void)Check(B); break;
   case OP_CONST_IN: OpNote("to-const"); if (g.R(2)) Assign(C, A); else { CH t; t.r = AddConstToRef(A.r); t.serial = A.serial; t.counting = true; t.Up(); Assign(C, t); } Cnt(C_CONST_IN); Use(C); break;
   case OP_CONST_OUT: { OpNote("cast-away-const"); H t; t.r = CastAwayConstFromRef(C.r); t.serial = C.serial; t.counting = true; t.Up(); Cnt(C_CONST_OUT); Use(t); if (t.r() || g.R(8) == 0) Assign(B, t); if (g.R(3) == 0) Drop(C); } break;
   case OP_USE: OpNote("use"); Use(A); Use(C); if (g.R(4) == 0) sched_yield(); break;
   case OP_TEMP: { OpNote("copy-construct"); H t(A); Use(t); CH c(C); Use(c); if (g.R(2)) { H u(t); Use(u); } } break;
   case OP_SETREF: if (A.r()) {
         OpNote("setref-off-on");
         H t(A);                                                           // a counting copy; A keeps the object alive throughout (balanced use)
         t.Down(); t.r.SetRef(t.r(), false); t.counting = false; Cnt(C_SETREF_OFF); Use(t);
         const int v = g.R(3);
         if (v == 0) { t.r.SetRef(t.r(), true); t.counting = true; t.Up(); Cnt(C_SETREF_ON); Use(t); Assign(B, t); }
         else if (v == 1) { H u; Assign(u, t); Use(u); u.r.SetRef(u.r(), true); u.counting = true; u.Up(); Cnt(C_SETREF_ON); Use(u); CH c; Assign(c, t); Use(c); c.r.SetRef(c.r(), true); c.counting = true; c.Up(); Use(c); Assign(B, u); }
         else { t.r.Reset(); t.serial = 0; t.counting = true; (void)Check(t); }
      } break;
   case OP_NEUTRAL: if (A.r()) {
         if (cs.single && g.R(2)) {
            // the only reference is neutralised: the count reaches zero but the object must not be released; then it is adopted again
            OpNote("neutralize-sole"); H t; Swap(t, A); Tracked * raw = t.r(); const uint64_t ser = t.serial; const bool sole = raw->shadow.load(RLX) == 1;
            t.Down(); t.r.Neutralize(); t.serial = 0; (void)Check(t);
            if (raw->st.load(RLX) != IN_USE) { Fail("neutralize_released_the_object", Desc(raw)); break; }
            if (sole && (int32)raw->GetRefCount() != 0) { Fail("neutralize_did_not_decrement", Desc(raw)); break; }
            H u; u.r.SetRef(raw, true); u.serial = ser; u.counting = true; u.Up(); Cnt(C_NEUTRALIZE_SOLE); Use(u); Assign(A, u);
         } else {
            OpNote("neutralize"); H t(A); Tracked * raw = t.r(); t.Down(); t.r.Neutralize(); t.serial = 0; (void)Check(t); Cnt(C_NEUTRALIZE);   // A still holds the object
            H u; u.r = TrackedRef(raw); u.serial = A.serial; u.counting = true; u.Up(); Use(u); Assign(B, u);
         }
      } break;
   case OP_MOVE: { OpNote("move"); H t(A); H u(B);
         u.r = std::move(t.r); std::swap(u.serial, t.serial); std::swap(u.counting, t.counting);       // documented as a swap
         (void)Check(u); (void)Check(t); Use(u); Use(t);
         H v; { TrackedRef m(std::move(u.r)); v.r.SwapContents(m); } v.serial = u.serial; v.counting = u.counting; u.serial = 0; u.counting = true; (void)Check(u); Use(v);
         CH c(C); CH d; d.r = std::move(c.r); std::swap(d.serial, c.serial); std::swap(d.counting, c.counting); Use(d); (void)Check(c);
         Cnt(C_MOVE); if (v.r() || g.R(8) == 0) Assign(B, v); } break;
   case OP_DUMMY: if (A.r()) {
         OpNote("dummyref"); DummyTrackedRef d(*A.r()); H t; t.r = d; t.serial = A.serial; t.counting = false; Use(t);
         DummyConstTrackedRef dc(A.r()); CH c; c.r = dc; c.serial = A.serial; c.counting = false; Use(c);
         Cnt(C_DUMMY);
         if (g.R(2)) { t.r.SetRef(t.r(), true); t.counting = true; t.Up(); Use(t); Assign(B, t); }
      } break;
   case OP_GENERIC: { OpNote("refcountableref"); Cnt(C_GENERIC);
         const Tracked * o = A.r();
         RefCountableRef gr = A.r.GetRefCountableRef(); if (o) o->shadow.fetch_add(1, RLX);
         H t; status_t r1 = t.r.SetFromRefCountableRef(gr); t.serial = A.serial; t.counting = true; t.Up();
         if (r1.IsError()) { Fail("setfromrefcountableref_failed", r1()); break; }
         if (o) o->shadow.fetch_sub(1, RLX); gr.Reset();
         Use(t);
         const Tracked * co = C.r();
         ConstRefCountableRef cg = C.r.GetRefCountableRef(); if (co) co->shadow.fetch_add(1, RLX);
         CH c; c.r.SetFromRefCountableRefUnchecked(cg); c.serial = C.serial; c.counting = true; c.Up();
         CH c2; c2.r = cg.DowncastTo<ConstTrackedRef>(); c2.serial = C.serial; c2.counting = true; c2.Up();
         if (co) co->shadow.fetch_sub(1, RLX); cg.Reset();
         Use(c); Use(c2); if (t.r() || g.R(8) == 0) Assign(B, t); } break;
   case OP_RAWSET: OpNote("setref-raw"); if (&A != &B && (A.r() || g.R(8) == 0)) { B.Down(); B.r.SetRef(A.r(), true); B.serial = A.serial; B.counting = true; B.Up(); Cnt(C_RAWSET); Use(B); } break;
   case OP_CLONE: if (A.r()) {
         OpNote("clone"); const bool heap = (A.r()->GetManager() == NULL); const int wantId = A.r()->id; const uint64_t wantChild = A.r()->childSerial;
         H t; t.r = A.r.Clone(); Tracked * n = t.r(); if (!n) HarnessAbort("Clone() returned NULL");
         if (heap) Cnt(C_HEAPNEW); else Cnt(C_OBTAIN);
         Cnt(heap ? C_CLONE_HEAP : C_CLONE_POOL);
         if (n->id != wantId || n->payload[0] != wantId || n->childSerial != wantChild || (int32)n->GetRefCount() != 1) { Fail("clone_content", Desc(n)); break; }
         Fresh(n, heap, true, A.r()->GetManager()); if (Bad()) break;
         t.serial = n->serial.load(RLX); t.counting = true; t.Up(); Use(t); Assign(B, t);
      } break;
   case OP_STATUS: { OpNote("status"); Cnt(C_STATUS); H t(A); const status_t e = ErrOf((int)g.R(4));
         t.Down(); t.r.SetStatus(e); t.serial = 0; t.counting = true; (void)Check(t);
         if (t.r() != NULL || strcmp(t.r.GetStatus()(), e()) != 0) { Fail("setstatus_getstatus", vh::fmt("SetStatus('%s') then GetStatus() = '%s'", e(), t.r.GetStatus()())); break; }
         H u; u.r = t.r; CH c; c.r = t.r; TrackedRef m(t.r); TrackedRef ca = CastAwayConstFromRef(c.r);
         if (strcmp(u.r.GetStatus()(), e()) != 0 || strcmp(c.r.GetStatus()(), e()) != 0 || strcmp(m.GetStatus()(), e()) != 0 || strcmp(ca.GetStatus()(), e()) != 0 || u.r() || c.r() || m() || ca()) { Fail("error_status_not_propagated_by_copy", e()); break; }
         H z; if (strcmp(z.r.GetStatus()(), B_NULL_REF()) != 0) { Fail("default_reference_status", z.r.GetStatus()()); break; }
         (void)Check(u); (void)Check(c); } break;
   case OP_SELF: OpNote("self-assign"); Cnt(C_SELF); A.r = A.r; A.r.SetRef(A.r(), A.r() != NULL); A.r.SwapContents(A.r); C.r = C.r; Use(A); Use(C); break;
   case OP_MODESWITCH: if (A.r() && B.r() && A.r() != B.r()) {
         // a NON-NULL reference changes its object AND its counting mode in one step (both directions, SetRef / operator= / swap, Ref and
         // ConstRef).  A keeps X alive and B keeps Y alive throughout (same thread), so every non-counting dereference is balanced; a
         // non-counting reference never contributes to nor removes from the count (the shadow bookkeeping of Hold follows 'counting').
         switch (g.R(9)) {
         case 0: { OpNote("setref-other-off-to-on"); H t; t.r.SetRef(A.r(), false); t.serial = A.serial; t.counting = false; Use(t);
                   t.Down(); t.r.SetRef(B.r(), true); t.serial = B.serial; t.counting = true; t.Up(); Cnt(C_SETREF_OTHER_OFF_ON); Use(t); Use(A); if (g.R(2)) Assign(A, t); } break;
         case 1: { OpNote("setref-other-on-to-off"); H t(A); Use(t);
                   t.Down(); t.r.SetRef(B.r(), false); t.serial = B.serial; t.counting = false; Cnt(C_SETREF_OTHER_ON_OFF); Use(t); Use(A);
                   if (g.R(2)) { t.r.SetRef(t.r(), true); t.counting = true; t.Up(); Cnt(C_SETREF_ON); Use(t); Assign(A, t); } } break;
         case 2: { OpNote("constref-setref-other-off-to-on"); CH t; t.r.SetRef(A.r(), false); t.serial = A.serial; t.counting = false; Use(t);
                   t.Down(); t.r.SetRef(B.r(), true); t.serial = B.serial; t.counting = true; t.Up(); Cnt(C_SETREF_OTHER_OFF_ON); Use(t); Use(A); if (g.R(2)) Assign(C, t); } break;
         case 3: { OpNote("constref-setref-other-on-to-off"); CH t; Assign(t, A); Use(t);
                   t.Down(); t.r.SetRef(B.r(), false); t.serial = B.serial; t.counting = false; Cnt(C_SETREF_OTHER_ON_OFF); Use(t); Use(A); } break;
         case 4: { OpNote("assign-other-off-to-on"); H t; t.r.SetRef(A.r(), false); t.serial = A.serial; t.counting = false; Use(t);
                   H u(B); Assign(t, u); Cnt(C_ASSIGN_OTHER_MODE); Use(t); Use(u); Use(A); if (g.R(2)) Assign(A, t); } break;
         case 5: { OpNote("assign-other-on-to-off"); H t(A); H u; u.r.SetRef(B.r(), false); u.serial = B.serial; u.counting = false; Use(u);
                   Assign(t, u); Cnt(C_ASSIGN_OTHER_MODE); Use(t); Use(u); Use(A); Use(B); } break;
         case 6: { OpNote("constref-assign-other-off-to-on"); DummyConstTrackedRef dx(A.r()); CH t; t.r = dx; t.serial = A.serial; t.counting = false; Use(t);
                   CH u; Assign(u, B); Assign(t, u); Cnt(C_ASSIGN_OTHER_MODE); Use(t); Use(u); Use(A); if (g.R(2)) Assign(C, t); } break;
         case 7: { OpNote("constref-assign-other-on-to-off"); CH t; Assign(t, A); DummyConstTrackedRef dy(B.r()); CH u; u.r = dy; u.serial = B.serial; u.counting = false;
                   Assign(t, u); Cnt(C_ASSIGN_OTHER_MODE); Use(t); Use(A); Use(B);
                   TrackedRef ca = CastAwayConstFromRef(t.r); if (ca.IsRefCounting() || ca() != B.r()) { Fail("isrefcounting_flag_wrong", "CastAwayConstFromRef() of a non-counting ConstRef"); break; } } break;
         default: { OpNote("swap-different-modes"); H t(A); H u; u.r.SetRef(B.r(), false); u.serial = B.serial; u.counting = false;
                   if (g.R(2)) Swap(t, u); else { t.r = std::move(u.r); std::swap(t.serial, u.serial); std::swap(t.counting, u.counting); }   // move-assignment is documented as a swap
                   Cnt(C_SWAP_MODES); (void)Check(t); (void)Check(u); Use(t); Use(u); Use(A); Use(B); } break;
         }
      } break;
   case OP_PRIVATE: if (cs.single && A.r()) {
         // exact in the single-threaded phase only: private <=> exactly one reference
         OpNote("ensure-private"); Cnt(C_ENSURE_PRIVATE);
         const Tracked * old = A.r(); const bool priv = old->shadow.load(RLX) == 1; const bool heap = (old->GetManager() == NULL); const AbstractObjectManager * mgr = old->GetManager();
         if (A.r.IsRefPrivate() != priv) { Fail("isrefprivate", vh::fmt("IsRefPrivate() %d, references %d", (int)A.r.IsRefPrivate(), old->shadow.load(RLX))); break; }
         if (!priv) A.Down();
         if (A.r.EnsureRefIsPrivate().IsError()) HarnessAbort("EnsureRefIsPrivate failed");
         if ((A.r() != old) == priv) { Fail("ensurerefisprivate", priv ? "a private object was cloned" : "a shared object was not cloned"); break; }
         if (!priv) { Tracked * n = A.r(); Cnt(heap ? C_HEAPNEW : C_OBTAIN); Fresh(n, heap, true, mgr); if (Bad()) break; A.serial = n->serial.load(RLX); A.counting = true; A.Up(); if (!A.r.IsRefPrivate()) { Fail("isrefprivate", "the clone made by EnsureRefIsPrivate() is not private"); break; } }
         Use(A);
      } break;
   }
}

static void DropAll(Th & T) { for (int j = 0; j < Th::NM; j++) Drop(T.mine[j]); for (int j = 0; j < Th::NCM; j++) Drop(T.cmine[j]); }

static void Worker(Th * T)
{
   CaseState & cs = *T->cs;
   t_me = T->idx; t_cnt = T->cnt; t_ringN = 0; t_depth = 0; hookrt::set_role(T->idx < 3 ? T->idx : 3);
   const int segs = 3;
   for (int s = 0; s < segs; s++) {
      const long n = T->nOps / segs;
      for (long i = 0; i < n && !Bad(); i++) DoOp(*T);
      // untimed barrier: if a thread hangs inside the library, everybody ends up blocked without a timeout and the driver proves the deadlock
      const int r = pthread_barrier_wait(&cs.bar);
      if (r == PTHREAD_BARRIER_SERIAL_THREAD && !Bad()) { OpNote("barrier-audit"); Audit(cs, false); }
      pthread_barrier_wait(&cs.bar);
   }
   if (!Bad()) { OpNote("final-drops"); DropAll(*T); }   // the final drops of all threads run concurrently
}

static std::set<uint64_t> g_orderSigs;

static void ArmPlacement(long k, vh::Rng & g, std::string & desc, bool & delayed)
{
   static const int sites[4] = { MVH_REFCOUNT_HIT_ZERO, MVH_POOL_RELEASE_AFTER_RESET, MVH_POOL_RELEASE_AFTER_UNLOCK, MVH_POOL_OBTAIN_AFTER_UNLOCK };
   static const int roles[3] = { -2, 0, 1 };
   static const int sleepUs[4] = { 50, 200, 800, 2000 }, sleepOneIn[4] = { 2, 6, 20, 50 }, spinUs[3] = { 5, 20, 100 }, spinOneIn[3] = { 1, 3, 10 };
   hookrt::disarm_all(); delayed = true;
   if (vh::has_opt("nodelay")) { desc = "no delay (option nodelay)"; delayed = false; return; }   // for experiments: what do the hooks add?
   const int P = (int)(k % 40);
   int nPlace = 1; int idx[3] = { P, 0, 0 };
   if (P == 36 || P == 37) { const int oneIn = P == 36 ? 8 : 40, us = P == 36 ? 100 : 600; hookrt::jitter(oneIn, us); desc = vh::fmt("jitter only (1 in %d passages, up to %d us)", oneIn, us); vh::stat("cases_jitter_only"); return; }
   if (P == 38) { desc = "no delay"; vh::stat("cases_without_delay"); delayed = false; return; }
   if (P == 39) { nPlace = ((k / 40) % 3 == 2) ? 3 : 2; for (int i = 0; i < nPlace; i++) idx[i] = g.R(36); vh::stat(nPlace == 2 ? "cases_with_placement_pair" : "cases_with_placement_triple"); }
   desc = "";
   for (int i = 0; i < nPlace; i++) {
      const int site = sites[idx[i] / 9], role = roles[(idx[i] / 3) % 3], kind = idx[i] % 3;
      int us = 0, oneIn = 1;
      if (kind == hookrt::K_SLEEP) { const int v = g.R(4); us = sleepUs[v]; oneIn = sleepOneIn[v]; }
      else if (kind == hookrt::K_SPIN) { const int v = g.R(3); us = spinUs[v]; oneIn = spinOneIn[v]; }
      if (role != -2 && oneIn > 2) oneIn = (oneIn + 2) / 3;      // only one thread stalls: it may stall more often
      hookrt::arm(i, site, role, kind, us, oneIn);
      desc += vh::fmt("%sdelay at %s role %s kind %s up to %d us 1 in %d", i ? " + " : "", hookrt::site_name(site), role == -2 ? "any" : role == 0 ? "thread0" : "thread1", kind == 0 ? "yield" : kind == 1 ? "sleep" : "spin", us, oneIn);
      if (nPlace == 1) vh::stat(vh::fmt("placement_cases_%s", hookrt::site_name(site)));
   }
}

static void RunCase(long k, uint64_t seed)
{
   vh::Rng g(seed);
   g_bad.store(0); memset(g_mainCnt, 0, sizeof(g_mainCnt)); t_cnt = g_mainCnt; t_ringN = 0; t_me = -1;
   const std::string only = vh::opt("only", "");
   const long pct = vh::optl("ops", 100);
   CaseState * cs = new CaseState;
   const bool hot = only == "hot" ? true : only == "mixed" ? false : ((((k / 40) + k) & 1) != 0);
   cs->nT = hot ? 8 : 2 + (int)g.R(7);
   const uint32 m0 = 2 + g.R(3), m1 = 3 + g.R(6), m2 = 6 + g.R(11);
   cs->pools[0] = MakePool(0, m0); cs->pools[1] = MakePool(1, m1); cs->pools[2] = MakePool(2, m2);
   const long opsPerThread = (hot ? 3000 : 1500 + (long)g.R(1500)) * pct / 100, stOps = (200 + (long)g.R(400)) * pct / 100;
   g_caseDesc = vh::fmt("case %ld: pools max %u/%u/%u", k, m0, m1, m2);
   hookrt::disarm_all(); hookrt::reset_ring();
   long d0[5]; for (int s = 1; s <= 4; s++) d0[s] = hookrt::delays(s);

   // ---- phase 1: a single-threaded history of the same operations, audited exactly after every operation
   g_phase = "st"; cs->single = true; cs->hot = false; cs->nSlots = 3;
   Th * st = new Th(cs, 0, g.next(), stOps); cs->th.push_back(st);
   t_me = 0; t_cnt = st->cnt;
   if (only != "hot" && only != "mixed") {
      for (long i = 0; i < stOps && !Bad(); i++) { DoOp(*st); if (!Bad()) Audit(*cs, false); }
      if (!Bad()) { OpNote("final-drops"); DropAll(*st); for (int i = 0; i < 6; i++) Drop(cs->slots[i].h); }
      if (!Bad()) Audit(*cs, true);
      vh::stat("single_threaded_histories"); vh::stat("single_threaded_operations", stOps);
   }
   t_me = -1; t_cnt = g_mainCnt;

   // ---- phase 2: the thread bench
   std::string placement = "-"; bool delayed = false; uint64_t sig = 0;
   if (!Bad() && only != "st") {
      g_phase = hot ? "hot" : "mixed"; cs->single = false; cs->hot = hot; cs->nSlots = hot ? 2 : 6;
      ArmPlacement(k, g, placement, delayed);
      g_caseDesc += vh::fmt(", %d threads x %ld operations, %s mode, %s", cs->nT, opsPerThread, hot ? "hot" : "mixed", placement.c_str());
      std::vector<Th *> ths; for (int t = 0; t < cs->nT; t++) { Th * T = new Th(cs, t, g.next(), opsPerThread); ths.push_back(T); cs->th.push_back(T); }
      if (pthread_barrier_init(&cs->bar, NULL, (unsigned)cs->nT) != 0) HarnessAbort("pthread_barrier_init");
      std::vector<std::thread> threads;
      for (int t = 0; t < cs->nT; t++) threads.push_back(std::thread(Worker, ths[t]));
      for (size_t t = 0; t < threads.size(); t++) threads[t].join();     // untimed
      pthread_barrier_destroy(&cs->bar);
      sig = hookrt::order_signature();
      hookrt::disarm_all();
      if (!Bad()) { OpNote("drop-mailboxes"); for (int i = 0; i < 6; i++) Drop(cs->slots[i].h); }
      if (!Bad()) Audit(*cs, true);
      vh::stat(hot ? "cases_hot" : "cases_mixed"); vh::stat("threads_started", cs->nT); vh::statmax("max_threads", cs->nT);
      for (int s = 1; s <= 4; s++) if (hookrt::delays(s) > d0[s]) vh::stat(vh::fmt("cases_with_delay_at_%s", hookrt::site_name(s)));
      if (g_orderSigs.insert(sig).second) vh::stat("distinct_order_signatures");
   }
   for (int c = 0; c < NC; c++) { const long n = Sum(*cs, c); if (n) vh::stat(CName[c], n); }
   vh::stat("exact_audits", cs->audits);
   const long slabDel = Sum(*cs, C_SLABOBJ_DTOR), off = Sum(*cs, C_OFFTHREAD), rec = Sum(*cs, C_RECYCLE);
   vh::distinct(vh::mix64(seed ^ sig), !Bad() && only != "st" && slabDel > 0 && off > 0 && rec > 0);
   if (vh::want_sample()) vh::sample(g_caseDesc + vh::fmt(": %ld obtains, %ld heap objects, %ld drops, %ld dereferences, %ld objects destroyed with their slab, %ld last drops off the creator thread", Sum(*cs, C_OBTAIN), Sum(*cs, C_HEAPNEW), Sum(*cs, C_DROP), Sum(*cs, C_DEREF), slabDel, off));
   if (Bad()) { vh::stat("cases_abandoned_after_a_violation"); return; }   // everything of this case is leaked on purpose: nothing touches its objects again

   // ---- destruction of the pools: every object of the case is gone afterwards
   for (int i = 0; i < NPOOLS; i++) { vh::statmax(vh::fmt("max_objects_per_slab_pool%d", i), cs->pools[i]->perSlab); delete cs->pools[i]; cs->pools[i] = NULL; }
   long objs = g_mainCnt[C_CTOR] - g_mainCnt[C_DTOR]; for (size_t i = 0; i < cs->th.size(); i++) objs += cs->th[i]->cnt[C_CTOR] - cs->th[i]->cnt[C_DTOR];
   if (objs != 0) { g_phase = "end"; Fail("objects_left_after_pool_destruction", vh::fmt("constructed - destroyed = %ld after all pools of the case were destroyed", objs)); }
   for (size_t i = 0; i < cs->th.size(); i++) delete cs->th[i];
   delete cs;
}

// ---- documentation examples of RefCount.h / ObjectPool.h as tiny deterministic cases (C10 has no repaired finding to pin)
static void RFail(const char * rule, const std::string & what) { vh::viol(std::string("regress|") + rule, what); }
static void Regress()
{
   t_cnt = g_mainCnt; memset(g_mainCnt, 0, sizeof(g_mainCnt)); g_phase = "regress"; g_caseDesc = "regress";
   long k = 0;
   vh::begin_case(k++);
   { // "the referenced object won't be deleted until ALL Refs that reference it are gone"
      Tracked * t = new Tracked; t->heapObj.store(true); t->st.store(IN_USE); const long d0 = g_mainCnt[C_DTOR];
      { TrackedRef a(t); if (t->GetRefCount() != 1) RFail("ref_count_after_ctor", "");
        { TrackedRef b(a); ConstTrackedRef c = b; if (t->GetRefCount() != 3) RFail("ref_count_after_copies", vh::fmt("%u", t->GetRefCount())); if (a.IsRefPrivate()) RFail("isrefprivate_shared", ""); }
        if (t->GetRefCount() != 1 || g_mainCnt[C_DTOR] != d0) RFail("ref_count_after_copies_gone", ""); if (!a.IsRefPrivate()) RFail("isrefprivate_sole", ""); }
      if (g_mainCnt[C_DTOR] != d0 + 1) RFail("last_ref_deletes_once", vh::fmt("%ld destructions", g_mainCnt[C_DTOR] - d0));
   }
   vh::begin_case(k++);
   { // "doRefCount=false: it will not modify the object's reference count, nor will it ever delete the object"
      Tracked onStack; onStack.st.store(IN_USE); const long d0 = g_mainCnt[C_DTOR];
      { TrackedRef a; a.SetRef(&onStack, false); DummyTrackedRef d(onStack); TrackedRef b = d; ConstTrackedRef c = a;
        if (onStack.GetRefCount() != 0 || a.IsRefCounting() || b.IsRefCounting() || c.IsRefCounting()) RFail("noncounting_ref_counts", "");
        if (a.IsRefPrivate()) RFail("noncounting_ref_private", "IsRefPrivate() must be false when not counting"); }
      if (g_mainCnt[C_DTOR] != d0) RFail("noncounting_ref_deleted_object", "");
      onStack.st.store(POOLED);
   }
   vh::begin_case(k++);
   { // Neutralize(): "will not delete or recycle the held object under any circumstances"
      Tracked * t = new Tracked; t->heapObj.store(true); t->st.store(IN_USE); const long d0 = g_mainCnt[C_DTOR];
      TrackedRef a(t); a.Neutralize(); if (a() != NULL || g_mainCnt[C_DTOR] != d0 || t->GetRefCount() != 0) RFail("neutralize", "");
      TrackedRef b(t); b.Reset(); if (g_mainCnt[C_DTOR] != d0 + 1) RFail("readopt_after_neutralize", "");
   }
   vh::begin_case(k++);
   { // pool: a released object comes back in default state, once; manager pointer; Drain; slab deletion beyond the maximum
      PoolBox * p = MakePool(1, 2); const long c0 = g_mainCnt[C_CTOR], d0 = g_mainCnt[C_DTOR];
      Tracked * t = p->Obtain(); if (!t || t->GetManager() != p->Mgr()) RFail("obtain_manager", "");
      const uint32 per = p->Slots(); if (per < 2 || per > 4) HarnessAbort("pool 1 geometry is not 2..4 objects per slab");
      t->st.store(IN_USE); t->id = 77; t->payload[0] = 77;
      { TrackedRef r(t); } // last reference gone: recycled through the manager
      if (t->st.load() != POOLED || t->id != 0 || t->payload[0] != 0 || t->GetManager() != NULL) RFail("recycle_resets_to_default", Desc(t));
      if (g_mainCnt[C_RECYCLE] != 1 || g_mainCnt[C_DTOR] != d0) RFail("recycle_once_no_delete", "");
      std::vector<TrackedRef> v; for (int i = 0; i < 20; i++) { Tracked * x = p->Obtain(); x->st.store(IN_USE); v.push_back(TrackedRef(x)); }
      const uint32 peak = p->Slots(); p->Sanity(); v.clear(); p->Sanity();
      if (p->Slots() >= peak) RFail("slabs_beyond_max_are_deleted", vh::fmt("%u slots at peak, %u after releasing everything (max pool size 2)", peak, p->Slots()));
      p->Drain(); if (p->Slots() != 0) RFail("drain", vh::fmt("%u slots after Drain()", p->Slots()));
      if (p->Prefill(2).IsError() || p->Slots() < 2) RFail("prefill", "");
      delete p; if (g_mainCnt[C_CTOR] - c0 != g_mainCnt[C_DTOR] - d0) RFail("pool_destructor_deletes_all", "");
   }
   vh::begin_case(k++);
   { // Clone(): pooled source -> clone from the same pool; heap source -> copy-constructed heap object
      PoolBox * p = MakePool(0, 4); Tracked * t = p->Obtain(); t->st.store(IN_USE); t->id = 5; t->payload[0] = 5;
      { TrackedRef a(t); TrackedRef c = a.Clone(); if (!c() || c() == t || c()->GetManager() != p->Mgr() || c()->id != 5) RFail("clone_pooled", ""); if (c()) c()->st.store(IN_USE);
        ConstTrackedRef k2 = a; if (k2.EnsureRefIsPrivate().IsError() || k2() == t) RFail("ensure_private_clones_shared", ""); if (k2() && k2() != t) const_cast<Tracked *>(k2())->st.store(IN_USE); }
      Tracked * h = new Tracked; h->heapObj.store(true); h->st.store(IN_USE); h->id = 9; h->payload[0] = 9;
      { TrackedRef a(h); TrackedRef c = a.Clone(); if (!c() || c()->GetManager() != NULL || c()->id != 9 || !c()->heapObj.load()) RFail("clone_heap", ""); if (c()) c()->st.store(IN_USE); }
      delete p;
   }
   vh::begin_case(k++);
   { // status codes travel with NULL references
      TrackedRef a; if (strcmp(a.GetStatus()(), B_NULL_REF()) != 0) RFail("default_status", "");
      TrackedRef e(B_BAD_ARGUMENT); TrackedRef f = e; ConstTrackedRef c = e; if (strcmp(f.GetStatus()(), B_BAD_ARGUMENT()) != 0 || strcmp(c.GetStatus()(), B_BAD_ARGUMENT()) != 0) RFail("status_copy", "");
      for (int i = 0; i < 4; i++) { TrackedRef o; o.SetStatus(ErrOf(i)); TrackedRef o2 = o; if (strcmp(o2.GetStatus()(), ErrOf(i)()) != 0) RFail("status_odd_even_address", ErrOf(i)()); }
   }
   vh::begin_case(k++);
   { // an object holding a reference releases it when it is recycled (nested release), exactly once each
      PoolBox * p = MakePool(2, 4); const long r0 = g_mainCnt[C_RECYCLE];
      Tracked * a = p->Obtain(); a->st.store(IN_USE); Tracked * b = p->Obtain(); b->st.store(IN_USE);
      { TrackedRef ra(a); { TrackedRef rb(b); a->child = rb; b->shadow.fetch_add(1); a->childSerial = 0; }
        if (b->st.load() != IN_USE || b->GetRefCount() != 1) RFail("child_kept_alive", ""); }
      if (g_mainCnt[C_RECYCLE] - r0 != 2 || a->st.load() != POOLED || b->st.load() != POOLED) RFail("nested_release", vh::fmt("%ld recycles", g_mainCnt[C_RECYCLE] - r0));
      p->Sanity(); delete p;
   }
   vh::begin_case(k++);
   { // (a) a non-owning reference to X that is reassigned to an owning reference of another object Y must leave X's count alone
      PoolBox * p = MakePool(1, 4); Tracked * x = p->Obtain(); x->st.store(IN_USE); Tracked * y = p->Obtain(); y->st.store(IN_USE); const long r0 = g_mainCnt[C_RECYCLE];
      { TrackedRef ownX(x), ownY(y);
        TrackedRef d; d.SetRef(x, false); d = ownY;
        if (x->GetRefCount() != 1 || x->st.load() != IN_USE || y->GetRefCount() != 2 || !d.IsRefCounting() || d() != y) RFail("nonowning_ref_reassigned_to_owning_ref_of_other_object", vh::fmt("operator=: X count %d (%s), Y count %d", (int)x->GetRefCount(), StName(x->st.load()), (int)y->GetRefCount()));
        TrackedRef e; e.SetRef(x, false); e.SetRef(y, true);
        if (x->GetRefCount() != 1 || x->st.load() != IN_USE || y->GetRefCount() != 3 || !e.IsRefCounting()) RFail("nonowning_ref_reassigned_to_owning_ref_of_other_object", vh::fmt("SetRef: X count %d (%s), Y count %d", (int)x->GetRefCount(), StName(x->st.load()), (int)y->GetRefCount()));
        DummyConstTrackedRef dc(x); ConstTrackedRef c = dc; ConstTrackedRef cy = ownY; c = cy;
        if (x->GetRefCount() != 1 || x->st.load() != IN_USE || y->GetRefCount() != 5 || !c.IsRefCounting()) RFail("nonowning_ref_reassigned_to_owning_ref_of_other_object", vh::fmt("ConstRef: X count %d (%s), Y count %d", (int)x->GetRefCount(), StName(x->st.load()), (int)y->GetRefCount()));
        if (x->st.load() == IN_USE) { Tracked * again = p->Obtain(); if (again == x) RFail("pool_hands_out_object_that_is_still_owned", ""); again->st.store(IN_USE); TrackedRef ra(again); } }
      if (vh::violations() == 0 && g_mainCnt[C_RECYCLE] - r0 != 3) RFail("release_count_after_mode_switch", vh::fmt("%ld recycles, expected 3", g_mainCnt[C_RECYCLE] - r0));
      if (vh::violations() == 0) { p->Sanity(); delete p; }
   }
   vh::begin_case(k++);
   { // (b) an owning reference of X that is reassigned to a non-owning reference of another object Y must drop X
      PoolBox * p = MakePool(2, 4); Tracked * x = p->Obtain(); x->st.store(IN_USE); Tracked * y = p->Obtain(); y->st.store(IN_USE); const long r0 = g_mainCnt[C_RECYCLE]; const long v0 = vh::violations();
      { TrackedRef ownY(y);
        { TrackedRef ownX(x); TrackedRef c(ownX); DummyTrackedRef dy(*y); c = dy;
          if (x->GetRefCount() != 1 || y->GetRefCount() != 1 || c.IsRefCounting() || c() != y) RFail("owning_ref_reassigned_to_nonowning_ref_of_other_object", vh::fmt("operator=: X count %d, Y count %d", (int)x->GetRefCount(), (int)y->GetRefCount()));
          TrackedRef c2(ownX); c2.SetRef(y, false);
          if (vh::violations() == v0 && (x->GetRefCount() != 1 || y->GetRefCount() != 1 || c2.IsRefCounting())) RFail("owning_ref_reassigned_to_nonowning_ref_of_other_object", vh::fmt("SetRef: X count %d, Y count %d", (int)x->GetRefCount(), (int)y->GetRefCount()));
          TrackedRef s1(ownX), s2; s2.SetRef(y, false); s1.SwapContents(s2);
          if (vh::violations() == v0 && (s1.IsRefCounting() || !s2.IsRefCounting() || s1() != y || s2() != x || x->GetRefCount() != 2 || y->GetRefCount() != 1)) RFail("swap_between_refs_of_different_modes", ""); }
        if (vh::violations() == v0 && (x->st.load() != POOLED || g_mainCnt[C_RECYCLE] - r0 != 1)) RFail("object_not_released_after_owning_ref_became_nonowning", vh::fmt("X is %s, count %d", StName(x->st.load()), (int)x->GetRefCount()));
        if (vh::violations() == v0 && (y->st.load() != IN_USE || y->GetRefCount() != 1)) RFail("nonowning_refs_changed_the_count", ""); }
      if (vh::violations() == v0 && g_mainCnt[C_RECYCLE] - r0 != 2) RFail("release_count_after_mode_switch", vh::fmt("%ld recycles, expected 2", g_mainCnt[C_RECYCLE] - r0));
      if (vh::violations() == v0) { p->Sanity(); delete p; }     // after a failed witness the pool is left alone (it would MCRASH on the leaked object)
   }
   for (long i = 0; i < k; i++) vh::distinct((uint64_t)i + 1);
   vh::stat("regress_cases", k);
}

int main(int argc, char ** argv)
{
   CompleteSetupSystem css;
   vh::init(argc, argv);
   vh::Ctx & c = vh::ctx();
   t_cnt = g_mainCnt;
   hookrt::install();                                    // before any thread exists
   const_cast<Tracked &>(GetDefaultObjectForType<Tracked>()).isDefault = true;   // the one static default object per type: lives until exit
   g_defaultObjects = g_mainCnt[C_CTOR];
   if (g_defaultObjects != 1) HarnessAbort("expected exactly one default object");
   { // slab geometry as compiled
      for (int i = 0; i < NPOOLS; i++) { PoolBox * p = MakePool(i, 4); Tracked * t = p->Obtain(); if (!t) HarnessAbort("ObtainObject"); const uint32 per = p->Slots(); t->st.store(IN_USE); p->Release(t); delete p; static const uint32 want[NPOOLS] = { 1, 3, 8 }; if (per != want[i]) { fprintf(stderr, "HARNESS-ABORT: pool %d has %u objects per slab, expected %u\n", i, per, want[i]); abort(); } }
   }
   const std::string mode = vh::opt("mode", "run");
   if (mode == "regress") { Regress(); return vh::finish(); }
   for (long k = c.from; k < c.from + c.cases; k++) {
      vh::begin_case(k);
      RunCase(k, vh::case_seed(c.seed, 10, (uint64_t)k));
   }
   for (int s = 1; s <= 4; s++) { vh::stat(vh::fmt("hook_hits_%s", hookrt::site_name(s)), hookrt::hits(s)); vh::stat(vh::fmt("hook_delays_%s", hookrt::site_name(s)), hookrt::delays(s)); }
   return vh::finish();
}
